//! DHCPv4 (src/wire/dhcpv4.rs): streams wire2-dhcp-emit / wire2-dhcp-parse.
//!
//! Repr fields of an `emit` op (absent key = None):
//!   mt=<u8> xid=<u32> secs=<u16> chaddr=<6> ciaddr= yiaddr= siaddr= giaddr=<4> bcast=0|1
//!   router= mask= reqip= sid=<4> cid=<6> prl=<hex|-> dns=<concatenated 4-octet addresses|->
//!   maxsz=<u16> lease= renew= rebind=<u32> add=<kind>:<hex>,<kind>:<hex>…
//! `emit`  -> `ret <bytes> opts=<options area> | <Repr::parse of the result> | blen=<Repr::buffer_len()>` / `ret Err | - | blen=` / `ret PANIC | - | blen=`
//! `wopt buf=<hex> kind=<u8> data=<hex>`: DhcpOptionWriter::emit of one option into `buf`, then end()
//!         -> `emit=<ok|err|PANIC> end=<ok|err|PANIC> buf=<bytes>`
//! `parse bytes=<hex>` -> `chk <ok|err> [acc <every accessor> sname= file= opts=<kind:data,…>] parse <Ok fields|Err|PANIC>`
use super::common::*;
use smoltcp::wire::*;
use svh::*;

fn v4(b: &[u8]) -> Ipv4Address {
    Ipv4Address::new(b[0], b[1], b[2], b[3])
}

fn mac(b: &[u8]) -> EthernetAddress {
    EthernetAddress([b[0], b[1], b[2], b[3], b[4], b[5]])
}

fn o4(x: &Option<Ipv4Address>) -> String {
    match x {
        Some(a) => hex(&a.octets()),
        None => "none".into(),
    }
}

fn on<T: ToString>(x: &Option<T>) -> String {
    match x {
        Some(a) => a.to_string(),
        None => "none".into(),
    }
}

fn show_repr(r: &DhcpRepr) -> String {
    let dns = match &r.dns_servers {
        None => "none".to_string(),
        Some(v) if v.is_empty() => "empty".to_string(),
        Some(v) => v.iter().map(|a| hex(&a.octets())).collect::<Vec<_>>().join(","),
    };
    format!(
        "Ok mt={} xid={} secs={} chaddr={} ciaddr={} yiaddr={} siaddr={} giaddr={} bcast={} router={} mask={} reqip={} cid={} sid={} prl={} dns={} maxsz={} lease={} renew={} rebind={} add={}",
        u8::from(r.message_type),
        r.transaction_id,
        r.secs,
        hex(r.client_hardware_address.as_bytes()),
        hex(&r.client_ip.octets()),
        hex(&r.your_ip.octets()),
        hex(&r.server_ip.octets()),
        hex(&r.relay_agent_ip.octets()),
        r.broadcast as u8,
        o4(&r.router),
        o4(&r.subnet_mask),
        o4(&r.requested_ip),
        match &r.client_identifier {
            Some(a) => hex(a.as_bytes()),
            None => "none".into(),
        },
        o4(&r.server_identifier),
        match r.parameter_request_list {
            Some(l) => show_bytes(l),
            None => "none".into(),
        },
        dns,
        on(&r.max_size),
        on(&r.lease_duration),
        on(&r.renew_duration),
        on(&r.rebind_duration),
        r.additional_options.len(),
    )
}

/// the fields of a DhcpRepr with owned variable-length parts
struct Owned {
    kv: Kv,
    prl: Option<Vec<u8>>,
    add: Vec<(u8, Vec<u8>)>,
}

impl Owned {
    fn new(op: &str) -> Owned {
        let kv = Kv::parse(op);
        let prl = kv.opt("prl").map(unhex);
        let add = match kv.opt("add") {
            None => vec![],
            Some(s) => s
                .split(',')
                .map(|e| {
                    let (k, d) = e.split_once(':').expect("add=k:hex");
                    (k.parse::<u8>().unwrap(), unhex(d))
                })
                .collect(),
        };
        Owned { kv, prl, add }
    }
    fn with<R>(&self, f: impl FnOnce(&DhcpRepr) -> R) -> R {
        let kv = &self.kv;
        let ip = |k: &str| kv.opt(k).map(|s| v4(&unhex(s)));
        let n32 = |k: &str| kv.opt(k).map(|s| s.parse::<u32>().unwrap());
        let add: Vec<DhcpOption> = self.add.iter().map(|(k, d)| DhcpOption { kind: *k, data: &d[..] }).collect();
        let mut repr = DhcpRepr {
            message_type: DhcpMessageType::from(kv.u("mt") as u8),
            transaction_id: kv.u("xid") as u32,
            secs: kv.u("secs") as u16,
            client_hardware_address: mac(&kv.b("chaddr")),
            client_ip: v4(&kv.b("ciaddr")),
            your_ip: v4(&kv.b("yiaddr")),
            server_ip: v4(&kv.b("siaddr")),
            router: ip("router"),
            subnet_mask: ip("mask"),
            relay_agent_ip: v4(&kv.b("giaddr")),
            broadcast: kv.flag("bcast"),
            requested_ip: ip("reqip"),
            client_identifier: kv.opt("cid").map(|s| mac(&unhex(s))),
            server_identifier: ip("sid"),
            parameter_request_list: self.prl.as_deref(),
            dns_servers: None,
            max_size: kv.opt("maxsz").map(|s| s.parse::<u16>().unwrap()),
            lease_duration: n32("lease"),
            renew_duration: n32("renew"),
            rebind_duration: n32("rebind"),
            additional_options: &add,
        };
        if let Some(s) = kv.opt("dns") {
            repr.dns_servers = Some(Default::default());
            let v = repr.dns_servers.as_mut().unwrap();
            for c in unhex(s).chunks(4) {
                v.push(v4(c)).expect("at most 3 dns servers");
            }
        }
        f(&repr)
    }
}

fn rb(r: &mut Rng, n: u64) -> Vec<u8> {
    let k = r.below(n) as usize;
    r.bytes(k)
}

fn gen_mt(r: &mut Rng) -> u8 {
    match r.below(12) {
        0 => 0,
        1 => 9,
        2 => 255,
        3 => r.next() as u8,
        _ => 1 + r.below(8) as u8,
    }
}

fn gen_dur(r: &mut Rng) -> u32 {
    match r.below(6) {
        0 => 0,
        1 => 1,
        2 => u32::MAX,
        _ => gen_u32(r),
    }
}

fn gen_prl(r: &mut Rng, allow_long: bool) -> Vec<u8> {
    let n = match r.below(10) {
        0 => 0,
        1 => 1,
        2 => 255,
        3 => 254,
        4 if allow_long => 256,
        5 => r.below(256) as usize,
        _ => r.below(12) as usize,
    };
    r.bytes(n)
}

/// option kinds the parser does not interpret (52 = OVERLOAD is one of them)
const UNKNOWN_KINDS: &[u8] = &[2, 12, 15, 28, 43, 52, 56, 60, 66, 67, 82, 119, 254];

fn gen_repr_fields(r: &mut Rng, wf: bool) -> String {
    let mut s = format!(
        "mt={} xid={} secs={} chaddr={} ciaddr={} yiaddr={} siaddr={} giaddr={} bcast={}",
        gen_mt(r),
        gen_u32(r),
        gen_u16(r),
        hex(&gen_mac(r)),
        hex(&gen_ipv4(r)),
        hex(&gen_ipv4(r)),
        hex(&gen_ipv4(r)),
        hex(&gen_ipv4(r)),
        r.below(2)
    );
    // all subsets of the optional fields: a random 12-bit mask, biased towards none / all
    let mask = match r.below(8) {
        0 => 0,
        1 => 0xfff,
        2 => 1 << r.below(12),
        _ => r.next() & 0xfff,
    };
    for (i, k) in ["router", "mask", "reqip", "sid"].iter().enumerate() {
        if mask >> i & 1 == 1 {
            s += &format!(" {}={}", k, hex(&gen_ipv4(r)));
        }
    }
    if mask >> 4 & 1 == 1 {
        s += &format!(" cid={}", hex(&gen_mac(r)));
    }
    if mask >> 5 & 1 == 1 {
        s += &format!(" prl={}", hex(&gen_prl(r, !wf)));
    }
    if mask >> 6 & 1 == 1 {
        let n = r.below(4) as usize;
        let mut d = vec![];
        for _ in 0..n {
            d.extend_from_slice(&gen_ipv4(r));
        }
        s += &format!(" dns={}", hex(&d));
    }
    if mask >> 7 & 1 == 1 {
        let g = gen_u16(r);
        s += &format!(" maxsz={}", *r.pick(&[0u16, 576, 65535, 1500, g]));
    }
    for (i, k) in ["lease", "renew", "rebind"].iter().enumerate() {
        if mask >> (8 + i) & 1 == 1 {
            s += &format!(" {}={}", k, gen_dur(r));
        }
    }
    if !wf && mask >> 11 & 1 == 1 {
        let n = 1 + r.below(3);
        let mut v = vec![];
        for _ in 0..n {
            let kind = match r.below(8) {
                0 => 0,
                1 => 255,
                2 => *r.pick(&[53u8, 61, 6, 55, 50, 51, 58]),
                _ => *r.pick(UNKNOWN_KINDS),
            };
            let len = match r.below(8) {
                0 => 0,
                1 => 255,
                2 => 256,
                _ => r.below(9) as usize,
            };
            v.push(format!("{}:{}", kind, hex(&r.bytes(len))));
        }
        s += &format!(" add={}", v.join(","));
    }
    s
}

fn gen_emit(r: &mut Rng, _tier: &str) -> Vec<String> {
    // 7 of 8 inside the proviso (no additional options, prl <= 255)
    let wf = !r.chance(1, 8);
    let f = gen_repr_fields(r, wf);
    let len = Owned::new(&f).with(|repr| repr.buffer_len());
    let mut bufs = gen_buffers(r, len);
    if r.chance(1, 6) {
        // outside the declared length: one short, one long, one shorter than the fixed header
        bufs.push(vec![0x5au8; len - 1]);
        let extra = 1 + r.below(8) as usize;
        bufs.push(r.bytes(len + extra));
        bufs.push(vec![0u8; *r.pick(&[0usize, 33, 107, 235, 239, 240, 243])]);
    }
    let mut ops: Vec<String> = bufs.iter().map(|b| format!("emit buf={} {}", hex(b), f)).collect();
    // DhcpOptionWriter on its own
    let dl = *r.pick(&[0usize, 1, 4, 7, 254, 255, 256]);
    for bl in [dl + 3, dl + 2, dl + 1, 2, 1, 0, dl + 10] {
        ops.push(format!("wopt buf={} kind={} data={}", hex(&gen_payload(r, bl)), gen_u8(r), hex(&r.bytes(dl))));
    }
    ops
}

// ---------- parse stream ----------

/// a 240-octet fixed header; `sname`/`file` optionally carry strings
fn gen_header(r: &mut Rng) -> Vec<u8> {
    let mut h = vec![0u8; 240];
    h[0] = *r.pick(&[1u8, 2, 1, 2, 0, 3, 255]);
    h[1] = if r.chance(9, 10) { 1 } else { *r.pick(&[0u8, 6, 255]) };
    h[2] = if r.chance(9, 10) { 6 } else { *r.pick(&[0u8, 5, 7, 16]) };
    h[3] = gen_u8(r);
    h[4..8].copy_from_slice(&gen_u32(r).to_be_bytes());
    h[8..10].copy_from_slice(&gen_u16(r).to_be_bytes());
    let fl: u16 = *r.pick(&[0u16, 0x8000, 0x8000, 0x7fff, 0xffff, 0x0001, 0x4000]);
    h[10..12].copy_from_slice(&fl.to_be_bytes());
    for i in 0..4 {
        h[12 + 4 * i..16 + 4 * i].copy_from_slice(&gen_ipv4(r));
    }
    h[28..34].copy_from_slice(&gen_mac(r));
    for (lo, hi) in [(34usize, 108usize), (108, 236)] {
        let w = hi - lo;
        let s: Vec<u8> = match r.below(10) {
            0 => b"pxe.example\0".to_vec(),
            1 => "b\u{fc}cher/\u{20ac}/\u{1f600}\0".as_bytes().to_vec(),
            2 => vec![b'a'; w],             // no NUL
            3 => {
                let mut v = vec![b'z'; w - 1]; // NUL in the last octet
                v.push(0);
                v
            }
            4 => vec![0xc3, 0x28, 0],       // invalid continuation
            5 => vec![0xed, 0xa0, 0x80, 0], // surrogate
            6 => vec![0xf4, 0x90, 0x80, 0x80, 0], // > U+10FFFF
            7 => {
                let mut v = rb(r, 6);
                v.push(b'q');
                v.push(0);
                v
            }
            _ => vec![],
        };
        h[lo..lo + s.len()].copy_from_slice(&s);
    }
    h[236..240].copy_from_slice(&[0x63, 0x82, 0x53, 0x63]);
    h
}

fn gen_options(r: &mut Rng, op: u8) -> Vec<(u8, Vec<u8>)> {
    let mut v: Vec<(u8, Vec<u8>)> = vec![];
    let mt = match op {
        1 => *r.pick(&[1u8, 3, 4, 7, 8]),
        2 => *r.pick(&[2u8, 5, 6]),
        _ => *r.pick(&[0u8, 9, 200]),
    };
    if r.chance(9, 10) {
        v.push((53, vec![if r.chance(9, 10) { mt } else { gen_mt(r) }]));
    }
    let n = r.below(9);
    for _ in 0..n {
        let o: (u8, Vec<u8>) = match r.below(16) {
            0 => (50, gen_ipv4(r).to_vec()),
            1 => (61, {
                let mut d = vec![if r.chance(5, 6) { 1 } else { gen_u8(r) }];
                d.extend_from_slice(&gen_mac(r));
                d
            }),
            2 => (54, gen_ipv4(r).to_vec()),
            3 => (3, gen_ipv4(r).to_vec()),
            4 => (1, gen_ipv4(r).to_vec()),
            5 => (57, gen_u16(r).to_be_bytes().to_vec()),
            6 => (58, gen_dur(r).to_be_bytes().to_vec()),
            7 => (59, gen_dur(r).to_be_bytes().to_vec()),
            8 => (51, gen_dur(r).to_be_bytes().to_vec()),
            9 => (55, gen_prl(r, false)),
            10 | 11 => (6, { let k = *r.pick(&[0usize, 1, 3, 4, 5, 8, 11, 12, 13, 16, 20, 255]); r.bytes(k) }),
            12 => (53, vec![gen_mt(r)]),
            13 => (*r.pick(UNKNOWN_KINDS), rb(r, 20)),
            // a known kind with an unexpected length
            14 => (*r.pick(&[53u8, 50, 61, 54, 3, 1, 57, 58, 59, 51]), rb(r, 9)),
            _ => (gen_u8(r).max(1).min(254), rb(r, 6)),
        };
        v.push(o);
    }
    v
}

/// header ++ options (`pads[i]` PAD octets in front of option i) ++ END; returns the offsets of the
/// length octets as well
fn assemble(h: &[u8], opts: &[(u8, Vec<u8>)], pads: &[usize], end: bool) -> (Vec<u8>, Vec<usize>) {
    let mut b = h.to_vec();
    let mut lens = vec![];
    for (i, (k, d)) in opts.iter().enumerate() {
        b.extend(std::iter::repeat(0u8).take(*pads.get(i).unwrap_or(&0)));
        b.push(*k);
        lens.push(b.len());
        b.push(d.len() as u8);
        b.extend_from_slice(d);
    }
    if end {
        b.push(255);
    }
    (b, lens)
}

fn gen_parse(r: &mut Rng, tier: &str) -> Vec<String> {
    let h = gen_header(r);
    let opts = gen_options(r, h[0]);
    let (base, lens) = assemble(&h, &opts, &[], true);
    let l = base.len();
    let mut out: Vec<Vec<u8>> = vec![];
    // generic: the packet, sparse truncations, boundary values in a few header fields, random bytes 0..=2048
    out.extend(mutations(r, &base, &[(0, 1), (1, 2), (2, 3), (10, 12), (236, 240)], tier));
    // every truncation from the end of the fixed header on (and around the header boundary)
    for k in 230..=l {
        out.push(base[..k].to_vec());
    }
    // option-length corruptions
    for &p in &lens {
        let to_end = l - (p + 1); // data would end exactly at the end of the buffer
        let mut vals: Vec<usize> = vec![0, 1, 255, to_end, to_end + 1];
        if to_end >= 1 {
            vals.push(to_end - 1); // exactly up to (not including) END
        }
        for v in vals {
            if v <= 255 {
                let mut b = base.clone();
                b[p] = v as u8;
                out.push(b);
            }
        }
        // kind corruptions: PAD, END, OVERLOAD, message type, client id
        for k in [0u8, 255, 52, 53, 61, 6] {
            let mut b = base.clone();
            b[p - 1] = k;
            out.push(b);
        }
    }
    // missing END: replaced by PAD / by a kind octet without a length / by kind + length without data
    for tail in [vec![0u8], vec![12u8], vec![12u8, 0], vec![12u8, 1], vec![12u8, 255], vec![0u8, 0, 0, 0], vec![]] {
        let mut b = base[..l - 1].to_vec();
        b.extend_from_slice(&tail);
        out.push(b);
    }
    // PAD runs in front of / between the options, PADs only, PADs after END
    for _ in 0..4 {
        let pads: Vec<usize> = (0..opts.len()).map(|_| *r.pick(&[0usize, 0, 1, 2, 3, 17])).collect();
        out.push(assemble(&h, &opts, &pads, r.chance(3, 4)).0);
    }
    for n in [0usize, 1, 2, 60, 312] {
        let mut b = h.clone();
        b.extend(std::iter::repeat(0u8).take(n));
        out.push(b.clone());
        b.push(255);
        b.extend(std::iter::repeat(0u8).take(n));
        out.push(b);
    }
    // duplicated options (the later one wins), options after END (ignored)
    if !opts.is_empty() {
        for _ in 0..4 {
            let mut o2 = opts.clone();
            let i = r.below(opts.len() as u64) as usize;
            let mut dup = opts[i].clone();
            if r.chance(2, 3) {
                dup.1 = r.bytes(dup.1.len());
            }
            let at = r.below(o2.len() as u64 + 1) as usize;
            o2.insert(at, dup);
            out.push(assemble(&h, &o2, &[], true).0);
        }
        let mut b = base.clone();
        b.extend_from_slice(&[53, 1, 5, 51, 4, 0, 0, 0, 9, 255]);
        out.push(b);
    }
    // many DNS servers, a 255-octet option at the very end
    for n in [0usize, 3, 4, 5, 12, 13, 16, 17, 252, 255] {
        let mut o2 = opts.clone();
        o2.push((6, r.bytes(n)));
        out.push(assemble(&h, &o2, &[], r.chance(1, 2)).0);
    }
    out.iter().map(|b| format!("parse bytes={}", hex(b))).collect()
}

// ---------- run ----------

fn parse_line(b: &[u8]) -> String {
    acc(|| DhcpRepr::parse(&DhcpPacket::new_unchecked(b)).map(|r| show_repr(&r)), |x| match x {
        Ok(s) => s,
        Err(_) => "Err".into(),
    })
}

fn res3(x: Option<std::result::Result<(), Error>>) -> &'static str {
    match x {
        None => "PANIC",
        Some(Err(_)) => "err",
        Some(Ok(())) => "ok",
    }
}

fn run_op(op: &str) -> String {
    if op.starts_with("emit") {
        let o = Owned::new(op);
        let mut buf = o.kv.b("buf");
        let res = o.with(|repr| {
            guard(|| {
                let mut p = DhcpPacket::new_unchecked(&mut buf[..]);
                repr.emit(&mut p)
            })
        });
        let blen = o.with(|repr| repr.buffer_len());
        match res {
            None => format!("ret PANIC | - | blen={}", blen),
            Some(Err(_)) => format!("ret Err | - | blen={}", blen),
            Some(Ok(())) => format!("ret {} opts={} | {} | blen={}", show_bytes(&buf), show_bytes(&buf[240..]), parse_line(&buf), blen),
        }
    } else if op.starts_with("wopt") {
        let kv = Kv::parse(op);
        let mut buf = kv.b("buf");
        let data = kv.b("data");
        let kind = kv.u("kind") as u8;
        let (e, n) = {
            let mut w = DhcpOptionWriter::new(&mut buf[..]);
            let e = guard(|| w.emit(DhcpOption { kind, data: &data }));
            let n = guard(|| w.end());
            (e, n)
        };
        format!("emit={} end={} buf={}", res3(e), res3(n), show_bytes(&buf))
    } else {
        let kv = Kv::parse(op);
        let bytes = kv.b("bytes");
        let chk = acc(|| DhcpPacket::new_checked(&bytes[..]).is_ok(), |ok| if ok { "ok".into() } else { "err".into() });
        let mut s = format!("chk {}", chk);
        if chk == "ok" {
            let p = DhcpPacket::new_unchecked(&bytes[..]);
            let st = |x: Option<std::result::Result<Vec<u8>, ()>>| match x {
                None => "PANIC".to_string(),
                Some(Err(())) => "Err".to_string(),
                Some(Ok(v)) => show_bytes(&v),
            };
            let opts = acc(
                || p.options().map(|o| format!("{}:{}", o.kind, show_bytes(o.data))).collect::<Vec<_>>(),
                |v| if v.is_empty() { "none".to_string() } else { v.join(",") },
            );
            s += &format!(
                " acc op={} htype={} hlen={} xid={} chaddr={} hops={} secs={} magic={} ciaddr={} yiaddr={} siaddr={} giaddr={} flags={} sname={} file={} opts={}",
                acc(|| u8::from(p.opcode()), |t| t.to_string()),
                acc(|| u16::from(p.hardware_type()), |t| t.to_string()),
                acc(|| p.hardware_len(), |t| t.to_string()),
                acc(|| p.transaction_id(), |t| t.to_string()),
                acc(|| p.client_hardware_address(), |t| hex(t.as_bytes())),
                acc(|| p.hops(), |t| t.to_string()),
                acc(|| p.secs(), |t| t.to_string()),
                acc(|| p.magic_number(), |t| t.to_string()),
                acc(|| p.client_ip(), |t| hex(&t.octets())),
                acc(|| p.your_ip(), |t| hex(&t.octets())),
                acc(|| p.server_ip(), |t| hex(&t.octets())),
                acc(|| p.relay_agent_ip(), |t| hex(&t.octets())),
                acc(|| p.flags().bits(), |t| t.to_string()),
                st(guard(|| p.get_sname().map(|x| x.as_bytes().to_vec()).map_err(|_| ()))),
                st(guard(|| p.get_boot_file().map(|x| x.as_bytes().to_vec()).map_err(|_| ()))),
                opts,
            );
        }
        format!("{} parse {}", s, parse_line(&bytes))
    }
}

pub const FORMAT: Format = Format { name: "dhcp", gen_emit, gen_parse, run_op };
