//! IPv6 Fragment header (the 6 octets after next-header/reserved): streams wire2-v6frag-emit / -parse.
//! Repr fields: off=<frag_offset> more=0|1 ident=<u32>.
use super::common::*;
use smoltcp::wire::*;
use svh::*;

fn show_repr(r: &Ipv6FragmentRepr) -> String {
    format!("Ok off={} more={} ident={}", r.frag_offset, r.more_frags as u8, r.ident)
}

fn gen_fields(r: &mut Rng) -> String {
    let off = match r.below(8) {
        0 => 0,
        1 => 1,
        2 => 8191,
        3 => 8190,
        4 => 8192, // beyond the 13-bit field: outside the proviso, the model must still agree
        5 => 0xffff,
        6 => gen_u16(r),
        _ => r.below(8192) as u16,
    };
    format!("off={} more={} ident={}", off, r.below(2), gen_u32(r))
}

fn repr_of(kv: &Kv) -> Ipv6FragmentRepr {
    Ipv6FragmentRepr { frag_offset: kv.u("off") as u16, more_frags: kv.flag("more"), ident: kv.u("ident") as u32 }
}

fn gen_emit(r: &mut Rng, _tier: &str) -> Vec<String> {
    let f = gen_fields(r);
    gen_buffers(r, 6).iter().map(|b| format!("emit buf={} {}", hex(b), f)).collect()
}

fn gen_parse(r: &mut Rng, tier: &str) -> Vec<String> {
    let repr = repr_of(&Kv::parse(&gen_fields(r)));
    let mut base = r.bytes(6);
    repr.emit(&mut Ipv6FragmentHeader::new_unchecked(&mut base[..]));
    if r.chance(1, 2) {
        base[1] |= (r.below(4) as u8) << 1; // reserved bits set by the peer
    }
    mutations(r, &base, &[(0, 2), (1, 2), (2, 6)], tier).iter().map(|b| format!("parse bytes={}", hex(b))).collect()
}

fn run_op(op: &str) -> String {
    let kv = Kv::parse(op);
    let parse = |b: &[u8]| {
        acc(|| Ipv6FragmentRepr::parse(&Ipv6FragmentHeader::new_unchecked(b)), |x| match x {
            Ok(r) => show_repr(&r),
            Err(_) => "Err".into(),
        })
    };
    if op.starts_with("emit") {
        let repr = repr_of(&kv);
        let mut buf = kv.b("buf");
        match guard(|| repr.emit(&mut Ipv6FragmentHeader::new_unchecked(&mut buf[..]))) {
            None => format!("ret PANIC | - | blen={}", repr.buffer_len()),
            Some(()) => format!("ret {} | {} | blen={}", show_bytes(&buf), parse(&buf), repr.buffer_len()),
        }
    } else {
        let bytes = kv.b("bytes");
        let chk = acc(|| Ipv6FragmentHeader::new_checked(&bytes[..]).is_ok(), |ok| if ok { "ok".into() } else { "err".into() });
        let mut s = format!("chk {}", chk);
        if chk == "ok" {
            let p = Ipv6FragmentHeader::new_unchecked(&bytes[..]);
            s += &format!(
                " acc off={} more={} ident={}",
                acc(|| p.frag_offset(), |t| t.to_string()),
                acc(|| p.more_frags(), |t| (t as u8).to_string()),
                acc(|| p.ident(), |t| t.to_string()),
            );
        }
        format!("{} parse {}", s, parse(&bytes))
    }
}

pub const FORMAT: Format = Format { name: "v6frag", gen_emit, gen_parse, run_op };
