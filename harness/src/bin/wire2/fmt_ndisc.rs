//! NDISC messages (src/wire/ndisc.rs): streams wire2-ndisc-emit / wire2-ndisc-parse.
//! Repr fields (absent optional field = None):
//!   kind=rs [ll=<hex>]
//!   kind=ra hl=<u8> rflags=<bits> lt=<secs> rt=<ms> xt=<ms> [ll=<hex>] [mtu=<u32>]
//!           [pi=1 plen= flags= valid= pref= prefix=]
//!   kind=ns target=<hex16> [ll=<hex>]
//!   kind=na nflags=<bits> target=<hex16> [ll=<hex>]
//!   kind=redirect target=<hex16> dest=<hex16> [ll=<hex>] [rh=1 src= dst= nxt= plen= hop= data=]
//! context: psrc=<hex16> pdst=<hex16> (pseudo-header addresses) tx=<0|1> / rx=<0|1> (checksum caps).
//! emit:  `raw <NdiscRepr::emit alone> ret <Icmpv6Repr::emit> | <NdiscRepr::parse> | icmp <Icmpv6Repr::parse> | blen=<n>`
//! parse: `chk <new_checked> [acc ...] parse <NdiscRepr::parse> | icmp <Icmpv6Repr::parse or - when octet 0 is no NDISC type>`
use super::common::*;
use super::fmt_ndiscopt::{a16, gen_lladdr, gen_option_bytes, gen_prefix_fields, gen_redir_fields, gen_secs, prefix_of, redir_of, show_prefix, show_redir};
use smoltcp::time::Duration;
use smoltcp::wire::*;
use svh::*;

fn show_ll(a: &Option<RawHardwareAddress>) -> String {
    match a {
        Some(a) => hex(a.as_bytes()),
        None => "none".into(),
    }
}

fn show_repr(r: &NdiscRepr) -> String {
    match r {
        NdiscRepr::RouterSolicit { lladdr } => format!("Ok kind=rs ll={}", show_ll(lladdr)),
        NdiscRepr::RouterAdvert { hop_limit, flags, router_lifetime, reachable_time, retrans_time, lladdr, mtu, prefix_info } => format!(
            "Ok kind=ra hl={} rflags={} lt={} rt={} xt={} ll={} mtu={} pi={}",
            hop_limit,
            flags.bits(),
            router_lifetime.secs(),
            reachable_time.total_millis(),
            retrans_time.total_millis(),
            show_ll(lladdr),
            mtu.map(|m| m.to_string()).unwrap_or("none".into()),
            prefix_info.as_ref().map(|p| format!("1 {}", show_prefix(p))).unwrap_or("none".into())
        ),
        NdiscRepr::NeighborSolicit { target_addr, lladdr } => format!("Ok kind=ns target={} ll={}", hex(&target_addr.octets()), show_ll(lladdr)),
        NdiscRepr::NeighborAdvert { flags, target_addr, lladdr } => format!("Ok kind=na nflags={} target={} ll={}", flags.bits(), hex(&target_addr.octets()), show_ll(lladdr)),
        NdiscRepr::Redirect { target_addr, dest_addr, lladdr, redirected_hdr } => format!(
            "Ok kind=redirect target={} dest={} ll={} rh={}",
            hex(&target_addr.octets()),
            hex(&dest_addr.octets()),
            show_ll(lladdr),
            redirected_hdr.as_ref().map(|h| format!("1 {}", show_redir(h))).unwrap_or("none".into())
        ),
    }
}

fn gen_ll_field(r: &mut Rng) -> String {
    if r.chance(2, 3) {
        format!(" ll={}", hex(&gen_lladdr(r)))
    } else {
        String::new()
    }
}

fn gen_ms(r: &mut Rng) -> u64 {
    gen_secs(r)
}

fn gen_repr_fields(r: &mut Rng, tier: &str) -> String {
    match r.below(7) {
        0 => format!("kind=rs{}", gen_ll_field(r)),
        1 | 2 => {
            let lt = match r.below(6) {
                0 => 65536 + r.below(10),
                1 => 65535,
                _ => gen_u16(r) as u64,
            };
            let mut s = format!("kind=ra hl={} rflags={} lt={} rt={} xt={}{}", gen_u8(r), *r.pick(&[0u8, 0x40, 0x80, 0xc0]), lt, gen_ms(r), gen_ms(r), gen_ll_field(r));
            if r.chance(1, 2) {
                s += &format!(" mtu={}", gen_u32(r));
            }
            if r.chance(1, 2) {
                s += &format!(" pi=1 {}", gen_prefix_fields(r));
            }
            s
        }
        3 => format!("kind=ns target={}{}", hex(&gen_ipv6(r)), gen_ll_field(r)),
        4 => format!("kind=na nflags={} target={}{}", *r.pick(&[0u8, 0x20, 0x40, 0x60, 0x80, 0xa0, 0xc0, 0xe0]), hex(&gen_ipv6(r)), gen_ll_field(r)),
        _ => {
            let mut s = format!("kind=redirect target={} dest={}{}", hex(&gen_ipv6(r)), hex(&gen_ipv6(r)), gen_ll_field(r));
            if r.chance(2, 3) {
                s += &format!(" rh=1 {}", gen_redir_fields(r, tier).0);
            }
            s
        }
    }
}

fn ll_of(kv: &Kv) -> Option<RawHardwareAddress> {
    kv.opt("ll").map(|_| RawHardwareAddress::from_bytes(&kv.b("ll")))
}

fn repr_of<'a>(kv: &Kv, data: &'a [u8]) -> NdiscRepr<'a> {
    match kv.s("kind") {
        "rs" => NdiscRepr::RouterSolicit { lladdr: ll_of(kv) },
        "ra" => NdiscRepr::RouterAdvert {
            hop_limit: kv.u("hl") as u8,
            flags: NdiscRouterFlags::from_bits_truncate(kv.u("rflags") as u8),
            router_lifetime: Duration::from_secs(kv.u("lt")),
            reachable_time: Duration::from_millis(kv.u("rt")),
            retrans_time: Duration::from_millis(kv.u("xt")),
            lladdr: ll_of(kv),
            mtu: kv.opt("mtu").map(|_| kv.u("mtu") as u32),
            prefix_info: kv.opt("pi").map(|_| prefix_of(kv)),
        },
        "ns" => NdiscRepr::NeighborSolicit { target_addr: a16(&kv.b("target")), lladdr: ll_of(kv) },
        "na" => NdiscRepr::NeighborAdvert { flags: NdiscNeighborFlags::from_bits_truncate(kv.u("nflags") as u8), target_addr: a16(&kv.b("target")), lladdr: ll_of(kv) },
        _ => NdiscRepr::Redirect { target_addr: a16(&kv.b("target")), dest_addr: a16(&kv.b("dest")), lladdr: ll_of(kv), redirected_hdr: kv.opt("rh").map(|_| redir_of(kv, data)) },
    }
}

fn buffer_len_of(fields: &str) -> usize {
    let kv = Kv::parse(fields);
    let data = kv.opt("data").map(|_| kv.b("data")).unwrap_or_default();
    repr_of(&kv, &data).buffer_len()
}

fn gen_ctx(r: &mut Rng) -> String {
    format!("psrc={} pdst={}", hex(&gen_ipv6(r)), hex(&gen_ipv6(r)))
}

fn gen_emit(r: &mut Rng, tier: &str) -> Vec<String> {
    let fields = gen_repr_fields(r, tier);
    let ctx = gen_ctx(r);
    let tx = r.chance(3, 4) as u8;
    let len = buffer_len_of(&fields);
    gen_buffers(r, len).iter().map(|b| format!("emit buf={} {} {} tx={} rx={}", hex(b), fields, ctx, tx, r.chance(1, 2) as u8)).collect()
}

fn is_ndisc_type(b: &[u8]) -> bool {
    !b.is_empty() && (0x85..=0x89).contains(&b[0])
}

fn gen_parse(r: &mut Rng, tier: &str) -> Vec<String> {
    // a well-formed message emitted by the real code (retry on the rare out-of-proviso panic)
    let (mut base, src, dst) = loop {
        let fields = gen_repr_fields(r, tier);
        let kv = Kv::parse(&fields);
        let data = kv.opt("data").map(|_| kv.b("data")).unwrap_or_default();
        let (src, dst) = (gen_ipv6(r), gen_ipv6(r));
        let len = buffer_len_of(&fields);
        if len > 300 && r.chance(3, 4) {
            continue;
        }
        let mut buf = r.bytes(len);
        let ok = guard(|| {
            let repr = Icmpv6Repr::Ndisc(repr_of(&kv, &data));
            repr.emit(&a16(&src), &a16(&dst), &mut Icmpv6Packet::new_unchecked(&mut buf[..]), &caps(true, true));
        });
        if ok.is_some() {
            break (buf, src, dst);
        }
    };
    // extra options after the ones the repr produced: unknown / duplicate / any well-formed option,
    // a zero-length option, an option longer than the rest
    for _ in 0..r.below(3) {
        match r.below(6) {
            0 => base.extend_from_slice(&[*r.pick(&[1u8, 2, 3, 5, 14, 200]), 0, 1, 2, 3, 4, 5, 6]),
            1 => {
                let l = 2 + r.below(40) as u8;
                base.extend_from_slice(&[*r.pick(&[1u8, 4, 14]), l, 0, 0, 0, 0, 0, 0]);
            }
            _ => base.extend(gen_option_bytes(r, tier)),
        }
    }
    let hl = match base[0] {
        0x85 => 8,
        0x86 => 16,
        0x87 | 0x88 => 24,
        _ => 40,
    };
    let mut fields = vec![(0, 1), (1, 2), (2, 4), (4, 5), (5, 6), (6, 8)];
    if base.len() >= hl + 8 {
        fields.push((hl, hl + 1));
        fields.push((hl + 1, hl + 2));
    }
    let ctx = format!("psrc={} pdst={}", hex(&src), hex(&dst));
    let mut out = Vec::new();
    for mut b in mutations(r, &base, &fields, tier) {
        // half of the mutated packets get a fresh valid checksum so that Icmpv6Repr::parse goes on
        if b.len() >= 4 && r.chance(1, 2) {
            Icmpv6Packet::new_unchecked(&mut b[..]).fill_checksum(&a16(&src), &a16(&dst));
        }
        out.push(format!("parse bytes={} {} rx={}", hex(&b), ctx, r.chance(2, 3) as u8));
    }
    out
}

fn run_op(op: &str) -> String {
    let kv = Kv::parse(op);
    let (src, dst) = (a16(&kv.b("psrc")), a16(&kv.b("pdst")));
    let rx = kv.flag("rx");
    let parse = |b: &[u8]| {
        acc(|| NdiscRepr::parse(&Icmpv6Packet::new_unchecked(b)).map(|r| show_repr(&r)), |x| match x {
            Ok(s) => s,
            Err(_) => "Err".into(),
        })
    };
    let icmp = |b: &[u8]| {
        if !is_ndisc_type(b) {
            return "-".to_string();
        }
        acc(
            || {
                Icmpv6Repr::parse(&src, &dst, &Icmpv6Packet::new_unchecked(b), &caps(true, rx)).map(|r| match r {
                    Icmpv6Repr::Ndisc(n) => show_repr(&n),
                    _ => "Ok other".to_string(),
                })
            },
            |x| match x {
                Ok(s) => s,
                Err(_) => "Err".into(),
            },
        )
    };
    if op.starts_with("emit") {
        let data = kv.opt("data").map(|_| kv.b("data")).unwrap_or_default();
        let tx = kv.flag("tx");
        let mut raw = kv.b("buf");
        let raw_res = guard(|| repr_of(&kv, &data).emit(&mut Icmpv6Packet::new_unchecked(&mut raw[..])));
        let raw_s = if raw_res.is_some() { show_bytes(&raw) } else { "PANIC".to_string() };
        let mut buf = kv.b("buf");
        let res = guard(|| {
            let repr = Icmpv6Repr::Ndisc(repr_of(&kv, &data));
            let bl = repr.buffer_len();
            repr.emit(&src, &dst, &mut Icmpv6Packet::new_unchecked(&mut buf[..]), &caps(tx, rx));
            bl
        });
        match res {
            None => format!("raw {} ret PANIC | -", raw_s),
            Some(bl) => format!("raw {} ret {} | {} | icmp {} | blen={}", raw_s, show_bytes(&buf), parse(&buf), icmp(&buf), bl),
        }
    } else {
        let bytes = kv.b("bytes");
        let chk = acc(|| Icmpv6Packet::new_checked(&bytes[..]).is_ok(), |ok| if ok { "ok".into() } else { "err".into() });
        let mut s = format!("chk {}", chk);
        if chk == "ok" && is_ndisc_type(&bytes) {
            let p = Icmpv6Packet::new_unchecked(&bytes[..]);
            s += &format!(
                " acc hl={} rflags={} lt={} rt={} xt={} target={} nflags={} dest={} payload={}",
                acc(|| p.current_hop_limit(), |t| t.to_string()),
                acc(|| p.router_flags(), |t| t.bits().to_string()),
                acc(|| p.router_lifetime(), |t| t.secs().to_string()),
                acc(|| p.reachable_time(), |t| t.total_millis().to_string()),
                acc(|| p.retrans_time(), |t| t.total_millis().to_string()),
                acc(|| p.target_addr(), |a| hex(&a.octets())),
                acc(|| p.neighbor_flags(), |t| t.bits().to_string()),
                acc(|| p.dest_addr(), |a| hex(&a.octets())),
                acc(|| p.payload().to_vec(), |a| show_bytes(&a)),
            );
        }
        format!("{} parse {} | icmp {}", s, parse(&bytes), icmp(&bytes))
    }
}

pub const FORMAT: Format = Format { name: "ndisc", gen_emit, gen_parse, run_op };
