//! IPv6 Hop-by-Hop options header: streams wire2-v6hbh-emit / wire2-v6hbh-parse.
//! Repr fields: `n=<k> kind0=… kind1=…` (explicit option list, k <= IPV6_HBH_MAX_OPTIONS since the repr is
//! a heapless::Vec), or `mld=1 pads=<hex>`: Repr::mldv2_router_alert() followed by push_padn_option(p)
//! for every octet p of pads (what the interface does; panics when the Vec is full).
use super::common::*;
use super::fmt_v6opt::{gen_area, gen_opt, gen_wf_opt, show_item, Opt};
use smoltcp::wire::*;
use svh::*;

const CAP: usize = 4; // IPV6_HBH_MAX_OPTIONS of the harness build (build.rs default)

fn show_repr(r: &Ipv6HopByHopRepr) -> String {
    format!("Ok n={} opts=[{}]", r.options.len(), r.options.iter().map(show_item).collect::<Vec<_>>().join(","))
}

fn gen_emit(r: &mut Rng, _tier: &str) -> Vec<String> {
    if r.chance(1, 8) {
        // the helper constructors
        let pads: Vec<u8> = (0..r.below(5)).map(|_| *r.pick(&[0u8, 0, 2, 4, 6, 12, 255, 1])).collect();
        let mut hb = Ipv6HopByHopRepr::mldv2_router_alert();
        let mut fits = true;
        for p in &pads {
            if hb.options.len() < CAP {
                hb.push_padn_option(*p);
            } else {
                fits = false;
            }
        }
        let len = if fits { hb.buffer_len() } else { 8 };
        return gen_buffers(r, len).iter().map(|b| format!("emit buf={} mld=1 pads={}", hex(b), hex(&pads))).collect();
    }
    let n = match r.below(10) {
        0 => 0,
        1 | 2 => CAP,
        _ => 1 + r.below(CAP as u64) as usize,
    };
    let opts: Vec<Opt> = (0..n).map(|_| if r.chance(1, 12) { gen_opt(r) } else { gen_wf_opt(r) }).collect();
    let bl: usize = opts.iter().map(|o| o.repr().buffer_len()).sum();
    let len = match r.below(16) {
        0 => bl.saturating_sub(1),
        1 => bl + 1 + r.below(8) as usize,
        _ => bl,
    };
    let fields: Vec<String> = opts.iter().enumerate().map(|(i, o)| o.fields(&i.to_string())).collect();
    gen_buffers(r, len).iter().map(|b| format!("emit buf={} n={} {}", hex(b), n, fields.join(" "))).collect()
}

fn gen_parse(r: &mut Rng, tier: &str) -> Vec<String> {
    let mut base = gen_area(r);
    if r.chance(1, 3) {
        base.extend(gen_area(r)); // more than the Vec holds: parse keeps the first CAP options
    }
    let mut all = mutations(r, &base, &[(0, 1), (1, 2)], tier);
    all.push([1u8, 0].repeat(1 + r.below(10) as usize));
    all.push(vec![0u8; r.below(12) as usize]);
    all.push(vec![0, 0, 0, 0, 0, 7]); // malformed sixth option: not reached (the fifth makes push fail: break)
    all.push(vec![0, 0, 0, 0, 7]); // malformed fifth option: `option?` comes before the push
    all.push(vec![0, 0, 0, 7]); // malformed option inside the capacity
    all.push(vec![0, 0, 0, 0, 5, 3, 0, 0, 0]);
    all.push(vec![5, 2, 0, 0, 1, 0]);
    all.iter().map(|b| format!("parse bytes={}", hex(b))).collect()
}

fn run_op(op: &str) -> String {
    let kv = Kv::parse(op);
    let parse = |b: &[u8]| {
        acc(
            || {
                let h = Ipv6HopByHopHeader::new_unchecked(b);
                Ipv6HopByHopRepr::parse(&h).map(|r| show_repr(&r))
            },
            |x| match x {
                Ok(s) => s,
                Err(_) => "Err".into(),
            },
        )
    };
    if op.starts_with("emit") {
        let mut buf = kv.b("buf");
        let res = if kv.flag("mld") {
            let pads = kv.b("pads");
            guard(|| {
                let mut hb = Ipv6HopByHopRepr::mldv2_router_alert();
                for p in &pads {
                    hb.push_padn_option(*p);
                }
                hb.emit(&mut Ipv6HopByHopHeader::new_unchecked(&mut buf[..]));
            })
        } else {
            let n = kv.u("n") as usize;
            let opts: Vec<Opt> = (0..n).map(|i| Opt::from_kv(&kv, &i.to_string())).collect();
            guard(|| {
                let mut hb = Ipv6HopByHopRepr { options: Default::default() };
                for o in &opts {
                    hb.options.push(o.repr()).expect("generator keeps n <= capacity");
                }
                hb.emit(&mut Ipv6HopByHopHeader::new_unchecked(&mut buf[..]));
            })
        };
        match res {
            None => "ret PANIC | -".to_string(),
            Some(()) => format!("ret {} | {}", show_bytes(&buf), parse(&buf)),
        }
    } else {
        let bytes = kv.b("bytes");
        let chk = acc(|| Ipv6HopByHopHeader::new_checked(&bytes[..]).is_ok(), |ok| if ok { "ok".into() } else { "err".into() });
        let mut s = format!("chk {}", chk);
        if chk == "ok" {
            let p = Ipv6HopByHopHeader::new_unchecked(&bytes[..]);
            s += &format!(" acc options={}", acc(|| p.options().to_vec(), |a| show_bytes(&a)));
        }
        format!("{} parse {}", s, parse(&bytes))
    }
}

pub const FORMAT: Format = Format { name: "v6hbh", gen_emit, gen_parse, run_op };
