//! MLDv2 (query, report, report built from address records, the address record itself):
//! streams wire2-mld-emit / wire2-mld-parse.
//! Repr fields:
//!   kind=query mrc=<u16> addr=<16 octets> s=0|1 qrv=<u8> qqic=<u8> nsrc=<u16> data=<hex>
//!   kind=report nr=<u16> data=<hex>
//!   kind=records recs=<type:aux:nsrc:addr>,…   (`-` = none)        MldRepr::ReportRecordReprs
//!   kind=rec type= aux= nsrc= addr= payload=<hex>                   MldAddressRecordRepr (emit into 20 octets)
//! Context: src/dst = IPv6 addresses of the pseudo header, tx/rx = ChecksumCapabilities.icmpv6.
//! emit observation: `raw <MldRepr::emit alone>` `ret <Icmpv6Repr::Mld(..).emit>` | MldRepr::parse | icmp <Icmpv6Repr::parse> | blen=<buffer_len()>
use super::common::*;
use smoltcp::wire::*;
use svh::*;

fn v6(b: &[u8]) -> Ipv6Address {
    let mut a = [0u8; 16];
    a.copy_from_slice(b);
    Ipv6Address::from(a)
}

fn show_repr(r: &MldRepr) -> String {
    match r {
        MldRepr::Query { max_resp_code, mcast_addr, s_flag, qrv, qqic, num_srcs, data } => format!(
            "Ok kind=query mrc={} addr={} s={} qrv={} qqic={} nsrc={} data={}",
            max_resp_code,
            hex(&mcast_addr.octets()),
            *s_flag as u8,
            qrv,
            qqic,
            num_srcs,
            show_bytes(data)
        ),
        MldRepr::Report { nr_mcast_addr_rcrds, data } => format!("Ok kind=report nr={} data={}", nr_mcast_addr_rcrds, show_bytes(data)),
        MldRepr::ReportRecordReprs(rs) => format!("Ok kind=records n={}", rs.len()),
    }
}

fn show_rec(r: &MldAddressRecordRepr) -> String {
    format!(
        "Ok kind=rec type={} aux={} nsrc={} addr={} payload={}",
        u8::from(r.record_type),
        r.aux_data_len,
        r.num_srcs,
        hex(&r.mcast_addr.octets()),
        show_bytes(r.payload)
    )
}

fn gen_mcast(r: &mut Rng) -> [u8; 16] {
    let mut a = gen_ipv6(r);
    a[0] = 0xff;
    a
}

fn gen_rec(r: &mut Rng) -> String {
    let ty = match r.below(4) {
        0 => gen_u8(r),
        _ => 1 + r.below(6) as u8,
    };
    format!("{}:{}:{}:{}", ty, gen_u8(r), gen_u16(r), hex(&gen_mcast(r)))
}

fn gen_fields(r: &mut Rng, tier: &str, small: bool) -> String {
    let dl = if small { r.below(40) as usize } else { gen_payload_len(r, tier, 1400) };
    match r.below(8) {
        0 | 1 | 2 => {
            let qrv = match r.below(6) {
                0 => 7,
                1 => 0,
                2 => 8 + r.below(248), // set_qrv asserts value < 8: emit panics (outside the proviso)
                _ => r.below(8),
            };
            let addr = if r.chance(1, 2) { gen_mcast(r) } else { gen_ipv6(r) };
            format!(
                "kind=query mrc={} addr={} s={} qrv={} qqic={} nsrc={} data={}",
                gen_u16(r),
                hex(&addr),
                r.below(2),
                qrv,
                gen_u8(r),
                gen_u16(r),
                hex(&gen_payload(r, dl))
            )
        }
        3 | 4 => format!("kind=report nr={} data={}", gen_u16(r), hex(&gen_payload(r, dl))),
        5 | 6 => {
            let n = match r.below(5) {
                0 => 0,
                1 => 1,
                _ => r.below(6) as usize,
            };
            let recs: Vec<String> = (0..n).map(|_| gen_rec(r)).collect();
            format!("kind=records recs={}", if recs.is_empty() { "-".to_string() } else { recs.join(",") })
        }
        _ => {
            let addr = if r.chance(7, 8) { gen_mcast(r) } else { gen_ipv6(r) };
            let pl = r.below(40) as usize;
            format!("kind=rec type={} aux={} nsrc={} addr={} payload={}", gen_u8(r), gen_u8(r), gen_u16(r), hex(&addr), hex(&gen_payload(r, pl)))
        }
    }
}

struct Owned {
    data: Vec<u8>,
    recs: Vec<(u8, u8, u16, [u8; 16])>,
}

fn owned(kv: &Kv) -> Owned {
    let data = kv.opt("data").map(unhex).unwrap_or_default();
    let mut recs = vec![];
    if let Some(s) = kv.opt("recs") {
        if s != "-" {
            for item in s.split(',') {
                let p: Vec<&str> = item.split(':').collect();
                let mut a = [0u8; 16];
                a.copy_from_slice(&unhex(p[3]));
                recs.push((p[0].parse().unwrap(), p[1].parse().unwrap(), p[2].parse().unwrap(), a));
            }
        }
    }
    Owned { data, recs }
}

fn with_repr<T>(kv: &Kv, f: impl FnOnce(MldRepr) -> T) -> T {
    let o = owned(kv);
    match kv.s("kind") {
        "query" => f(MldRepr::Query {
            max_resp_code: kv.u("mrc") as u16,
            mcast_addr: v6(&kv.b("addr")),
            s_flag: kv.flag("s"),
            qrv: kv.u("qrv") as u8,
            qqic: kv.u("qqic") as u8,
            num_srcs: kv.u("nsrc") as u16,
            data: &o.data,
        }),
        "report" => f(MldRepr::Report { nr_mcast_addr_rcrds: kv.u("nr") as u16, data: &o.data }),
        _ => {
            let recs: Vec<MldAddressRecordRepr> = o
                .recs
                .iter()
                .map(|(t, a, n, addr)| MldAddressRecordRepr { record_type: MldRecordType::from(*t), aux_data_len: *a, num_srcs: *n, mcast_addr: v6(addr), payload: &[] })
                .collect();
            f(MldRepr::ReportRecordReprs(&recs))
        }
    }
}

fn ctx(r: &mut Rng) -> String {
    format!("src={} dst={} tx={} rx={}", hex(&gen_ipv6(r)), hex(&gen_ipv6(r)), r.chance(3, 4) as u8, r.chance(3, 4) as u8)
}

fn buffer_len_of(kv: &Kv) -> usize {
    if kv.s("kind") == "rec" {
        20
    } else {
        with_repr(kv, |m| m.buffer_len())
    }
}

fn gen_emit(r: &mut Rng, tier: &str) -> Vec<String> {
    let f = gen_fields(r, tier, false);
    let c = ctx(r);
    let len = buffer_len_of(&Kv::parse(&f));
    gen_buffers(r, len).iter().map(|b| format!("emit buf={} {} {}", hex(b), f, c)).collect()
}

fn gen_parse(r: &mut Rng, tier: &str) -> Vec<String> {
    let c = ctx(r);
    let mut f = gen_fields(r, tier, true);
    while f.contains("qrv=") && Kv::parse(&f).u("qrv") >= 8 {
        f = gen_fields(r, tier, true);
    }
    let kv = Kv::parse(&format!("{} {}", f, c));
    let base: Vec<u8> = if kv.s("kind") == "rec" {
        let mut b = r.bytes(20);
        let mut a = kv.b("addr");
        a[0] = 0xff;
        MldAddressRecordRepr { record_type: MldRecordType::from(kv.u("type") as u8), aux_data_len: kv.u("aux") as u8, num_srcs: kv.u("nsrc") as u16, mcast_addr: v6(&a), payload: &[] }
            .emit(&mut MldAddressRecord::new_unchecked(&mut b[..]));
        b.extend(kv.b("payload"));
        b
    } else {
        // the records variant is emitted into what it really needs (header + 20 octets per record)
        let need = if kv.s("kind") == "records" { 8 + 20 * owned(&kv).recs.len() } else { buffer_len_of(&kv) };
        let mut b = r.bytes(need);
        with_repr(&kv, |m| Icmpv6Repr::Mld(m).emit(&v6(&kv.b("src")), &v6(&kv.b("dst")), &mut Icmpv6Packet::new_unchecked(&mut b[..]), &caps(true, true)));
        b
    };
    let what = if kv.s("kind") == "rec" { "rec" } else { "mld" };
    let fields: &[(usize, usize)] = if what == "rec" { &[(0, 1), (1, 2), (2, 4), (4, 20)] } else { &[(0, 1), (1, 2), (2, 4), (4, 6), (6, 8), (8, 24), (24, 25), (25, 26), (26, 28)] };
    mutations(r, &base, fields, tier).iter().map(|b| format!("parse what={} bytes={} {}", what, hex(b), c)).collect()
}

fn run_op(op: &str) -> String {
    let kv = Kv::parse(op);
    let parse_mld = |b: &[u8]| {
        acc(|| MldRepr::parse(&Icmpv6Packet::new_unchecked(b)).map(|r| show_repr(&r)), |x| match x {
            Ok(s) => s,
            Err(_) => "Err".into(),
        })
    };
    let parse_rec = |b: &[u8]| acc(|| MldAddressRecordRepr::parse(&MldAddressRecord::new_unchecked(b)).map(|r| show_rec(&r)), |x| x.unwrap_or_else(|_| "Err".into()));
    let parse_icmp = |b: &[u8], kv: &Kv| {
        if b.is_empty() || (b[0] != 0x82 && b[0] != 0x8f) {
            return "-".to_string();
        }
        let (src, dst) = (v6(&kv.b("src")), v6(&kv.b("dst")));
        let cc = caps(kv.flag("tx"), kv.flag("rx"));
        acc(
            || {
                Icmpv6Repr::parse(&src, &dst, &Icmpv6Packet::new_unchecked(b), &cc).map(|r| match r {
                    Icmpv6Repr::Mld(m) => show_repr(&m),
                    _ => "other".to_string(),
                })
            },
            |x| x.unwrap_or_else(|_| "Err".into()),
        )
    };
    if op.starts_with("emit") {
        if kv.s("kind") == "rec" {
            let payload = kv.b("payload");
            let repr = MldAddressRecordRepr {
                record_type: MldRecordType::from(kv.u("type") as u8),
                aux_data_len: kv.u("aux") as u8,
                num_srcs: kv.u("nsrc") as u16,
                mcast_addr: v6(&kv.b("addr")),
                payload: &payload,
            };
            let mut buf = kv.b("buf");
            return match guard(|| repr.emit(&mut MldAddressRecord::new_unchecked(&mut buf[..]))) {
                None => format!("ret PANIC | - | blen={}", repr.buffer_len()),
                Some(()) => {
                    let mut whole = buf.clone();
                    whole.extend_from_slice(&payload);
                    format!("ret {} | {} | blen={}", show_bytes(&buf), parse_rec(&whole), repr.buffer_len())
                }
            };
        }
        let (src, dst) = (v6(&kv.b("src")), v6(&kv.b("dst")));
        let cc = caps(kv.flag("tx"), kv.flag("rx"));
        let mut raw = kv.b("buf");
        let raw_s = match guard(|| with_repr(&kv, |m| m.emit(&mut Icmpv6Packet::new_unchecked(&mut raw[..])))) {
            None => "PANIC".to_string(),
            Some(()) => show_bytes(&raw),
        };
        let mut buf = kv.b("buf");
        let blen = buffer_len_of(&kv);
        match guard(|| with_repr(&kv, |m| Icmpv6Repr::Mld(m).emit(&src, &dst, &mut Icmpv6Packet::new_unchecked(&mut buf[..]), &cc))) {
            None => format!("raw {} ret PANIC | - | blen={}", raw_s, blen),
            Some(()) => format!("raw {} ret {} | {} | icmp {} | blen={}", raw_s, show_bytes(&buf), parse_mld(&buf), parse_icmp(&buf, &kv), blen),
        }
    } else {
        let bytes = kv.b("bytes");
        if kv.s("what") == "rec" {
            let chk = acc(|| MldAddressRecord::new_checked(&bytes[..]).is_ok(), |ok| if ok { "ok".into() } else { "err".into() });
            let mut s = format!("chk {}", chk);
            if chk == "ok" {
                let p = MldAddressRecord::new_unchecked(&bytes[..]);
                s += &format!(
                    " acc type={} aux={} nsrc={} addr={} payload={}",
                    acc(|| u8::from(p.record_type()), |t| t.to_string()),
                    acc(|| p.aux_data_len(), |t| t.to_string()),
                    acc(|| p.num_srcs(), |t| t.to_string()),
                    acc(|| p.mcast_addr().octets().to_vec(), |a| hex(&a)),
                    acc(|| p.payload().to_vec(), |a| show_bytes(&a)),
                );
            }
            return format!("{} parse {}", s, parse_rec(&bytes));
        }
        let chk = acc(|| Icmpv6Packet::new_checked(&bytes[..]).is_ok(), |ok| if ok { "ok".into() } else { "err".into() });
        let mut s = format!("chk {}", chk);
        // the MLD accessors apply to the packet's own message type
        if chk == "ok" && (bytes[0] == 0x82 || bytes[0] == 0x8f) {
            let p = Icmpv6Packet::new_unchecked(&bytes[..]);
            if bytes[0] == 0x82 {
                s += &format!(
                    " acc mrc={} addr={} s={} qrv={} qqic={} nsrc={} payload={}",
                    acc(|| p.max_resp_code(), |t| t.to_string()),
                    acc(|| p.mcast_addr().octets().to_vec(), |a| hex(&a)),
                    acc(|| p.s_flag(), |t| (t as u8).to_string()),
                    acc(|| p.qrv(), |t| t.to_string()),
                    acc(|| p.qqic(), |t| t.to_string()),
                    acc(|| p.num_srcs(), |t| t.to_string()),
                    acc(|| p.payload().to_vec(), |a| show_bytes(&a)),
                );
            } else {
                s += &format!(" acc nr={} payload={}", acc(|| p.nr_mcast_addr_rcrds(), |t| t.to_string()), acc(|| p.payload().to_vec(), |a| show_bytes(&a)));
            }
        }
        format!("{} parse {} | icmp {}", s, parse_mld(&bytes), parse_icmp(&bytes, &kv))
    }
}

pub const FORMAT: Format = Format { name: "mld", gen_emit, gen_parse, run_op };
