//! IEEE 802.15.4 frames (src/wire/ieee802154.rs): streams wire2-ieee154-emit / wire2-ieee154-parse.
//! Repr fields: ft=<u8 code> sec=0|1 fp=0|1 ar=0|1 seq=<u8>|none c=0|1 ver=<u8 code>
//!              dpan=<u16>|none dst=none|absent|<2 or 8 octets> span=<u16>|none src=…
//! One emit case = two choices of (frame type, version, security bit) — enumerated round-robin, see
//! EMIT_COUNTER — with random flags / numbers and ALL 32 combinations of (dst address kind, src address
//! kind, PAN id compression) each, every representation emitted into the four initial buffers.  Parse cases are built from a frame control word with every addressing
//! mode / version / frame type, the addressing fields the real accessors expect, and (when the
//! security bit is set) an auxiliary security header with every key identifier mode, with and
//! without frame counter, every security level, and a tail that may be shorter than the MIC.
use super::common::*;
use smoltcp::wire::*;
use svh::*;

fn show_addr(a: &Option<Ieee802154Address>) -> String {
    match a {
        None => "none".into(),
        Some(Ieee802154Address::Absent) => "absent".into(),
        Some(x) => hex(x.as_bytes()),
    }
}
fn show_pan(p: &Option<Ieee802154Pan>) -> String {
    p.map(|p| p.0.to_string()).unwrap_or_else(|| "none".into())
}
fn show_ou8(p: &Option<u8>) -> String {
    p.map(|p| p.to_string()).unwrap_or_else(|| "none".into())
}

fn show_repr(r: &Ieee802154Repr) -> String {
    format!(
        "Ok ft={} sec={} fp={} ar={} seq={} c={} ver={} dpan={} dst={} span={} src={}",
        u8::from(r.frame_type),
        r.security_enabled as u8,
        r.frame_pending as u8,
        r.ack_request as u8,
        show_ou8(&r.sequence_number),
        r.pan_id_compression as u8,
        u8::from(r.frame_version),
        show_pan(&r.dst_pan_id),
        show_addr(&r.dst_addr),
        show_pan(&r.src_pan_id),
        show_addr(&r.src_addr),
    )
}

fn addr_of(s: &str) -> Option<Ieee802154Address> {
    match s {
        "none" => None,
        "absent" => Some(Ieee802154Address::Absent),
        h => Some(Ieee802154Address::from_bytes(&unhex(h))),
    }
}
fn pan_of(s: &str) -> Option<Ieee802154Pan> {
    if s == "none" {
        None
    } else {
        Some(Ieee802154Pan(s.parse().expect("pan")))
    }
}

fn repr_of(kv: &Kv) -> Ieee802154Repr {
    Ieee802154Repr {
        frame_type: Ieee802154FrameType::from(kv.u("ft") as u8),
        security_enabled: kv.flag("sec"),
        frame_pending: kv.flag("fp"),
        ack_request: kv.flag("ar"),
        sequence_number: if kv.s("seq") == "none" { None } else { Some(kv.u("seq") as u8) },
        pan_id_compression: kv.flag("c"),
        frame_version: Ieee802154FrameVersion::from(kv.u("ver") as u8),
        dst_pan_id: pan_of(kv.s("dpan")),
        dst_addr: addr_of(kv.s("dst")),
        src_pan_id: pan_of(kv.s("span")),
        src_addr: addr_of(kv.s("src")),
    }
}

fn gen_addr(r: &mut Rng, kind: u64) -> String {
    match kind {
        0 => "none".into(),
        1 => "absent".into(),
        2 => match r.below(4) {
            0 => "ffff".into(),
            1 => "0000".into(),
            _ => hex(&r.bytes(2)),
        },
        _ => match r.below(4) {
            0 => "ffffffffffffffff".into(),
            1 => "0000000000000000".into(),
            _ => hex(&r.bytes(8)),
        },
    }
}

/// (frame type, version, security bit) of the emit cases are enumerated round-robin: case k of a
/// generator run covers combinations 2k and 2k+1 of the 64 in-range ones + 8 out-of-range extras,
/// so every run of at least 36 cases (one quick shard has 40) emits every combination.
static EMIT_COUNTER: std::sync::atomic::AtomicUsize = std::sync::atomic::AtomicUsize::new(0);

fn gen_emit(r: &mut Rng, _tier: &str) -> Vec<String> {
    let k = EMIT_COUNTER.fetch_add(1, std::sync::atomic::Ordering::Relaxed);
    let mut ops = vec![];
    for j in 0..2 {
        let idx = ((2 * k + j) % 72) as u64;
        // frame type: the seven known codes and the unknown code 4; extras: a code beyond the 3-bit
        // field / an Unknown(k) version beyond the 2-bit field (outside the proviso)
        let (ft, ver, sec) = if idx < 64 {
            (idx % 8, (idx / 8) % 4, idx / 32)
        } else if idx % 2 == 0 {
            (8 + r.below(248), r.below(4), r.below(2))
        } else {
            (r.below(8), 4 + r.below(252), r.below(2))
        };
        let (fp, ar) = (r.below(2), r.below(2));
        let seq = if r.chance(1, 6) { "none".to_string() } else { gen_u8(r).to_string() };
        for dk in 0..4u64 {
            for sk in 0..4u64 {
                for c in 0..2u64 {
                    // PAN ids: mostly the combination emit's layout carries, sometimes any other
                    let (dpan, span) = if r.chance(3, 4) { (true, c == 0) } else { (r.chance(1, 2), r.chance(1, 2)) };
                    let f = format!(
                        "ft={} sec={} fp={} ar={} seq={} c={} ver={} dpan={} dst={} span={} src={}",
                        ft,
                        sec,
                        fp,
                        ar,
                        seq,
                        c,
                        ver,
                        if dpan { gen_u16(r).to_string() } else { "none".into() },
                        gen_addr(r, dk),
                        if span { gen_u16(r).to_string() } else { "none".into() },
                        gen_addr(r, sk),
                    );
                    let len = repr_of(&Kv::parse(&f)).buffer_len();
                    for b in gen_buffers(r, len) {
                        ops.push(format!("emit buf={} {}", hex(&b), f));
                    }
                }
            }
        }
    }
    ops
}

/// length of the MAC header without security header that the real accessors derive from a frame
/// control word (3 when they panic or for frame types without addressing fields)
fn hdr_end(fc: u16) -> usize {
    let mut b = vec![0u8; 40];
    b[..2].copy_from_slice(&(fc & !(1 << 3)).to_le_bytes());
    guard(|| Ieee802154Frame::new_unchecked(&b[..]).mac_header().len()).unwrap_or(3)
}

fn gen_parse(r: &mut Rng, tier: &str) -> Vec<String> {
    let ft = *r.pick(&[0u16, 1, 1, 1, 2, 3, 5, 4, 6, 7]);
    let ver = *r.pick(&[0u16, 0, 1, 1, 2, 2, 2, 3]);
    let dm = *r.pick(&[0u16, 2, 2, 3, 3, 1]);
    let sm = *r.pick(&[0u16, 2, 2, 3, 3, 1]);
    let sec = r.chance(1, 2);
    let mut fc = ft | (r.below(2) as u16) << 4 | (r.below(2) as u16) << 5 | (r.below(2) as u16) << 6 | dm << 10 | ver << 12 | sm << 14;
    if sec {
        fc |= 1 << 3;
    }
    if r.chance(1, 4) {
        fc |= (r.below(8) as u16) << 7; // reserved bit, sequence number suppression, IE present
    }
    let end = hdr_end(fc);
    let mut base = fc.to_le_bytes().to_vec();
    base.extend(r.bytes(end - 2));
    let sec_at = base.len();
    if sec {
        let level = r.below(8) as u8;
        let kim = r.below(4) as u8;
        let sup = r.chance(1, 2);
        base.push(level | kim << 3 | (sup as u8) << 5 | (r.below(4) as u8) << 6);
        if !sup {
            base.extend(r.bytes(4));
        }
        base.extend(r.bytes([0usize, 1, 5, 9][kim as usize]));
    }
    // payload (+ MIC): often shorter than the MIC the security level announces
    let tail = match r.below(6) {
        0 => 0,
        1 => r.below(4) as usize,
        2 => 4 + r.below(5) as usize,
        3 => 16,
        _ => r.below(30) as usize,
    };
    base.extend(r.bytes(tail));
    base.truncate(127 + r.below(2) as usize * 3);
    let fields = [(0usize, 1usize), (1, 2), (2, 3), (3, 5), (sec_at, sec_at + 1), (sec_at + 1, sec_at + 5)];
    mutations(r, &base, &fields, tier).iter().map(|b| format!("parse bytes={}", hex(b))).collect()
}

fn oslice(x: Option<&[u8]>) -> String {
    match x {
        None => "none".into(),
        Some(s) => show_bytes(s),
    }
}

fn run_op(op: &str) -> String {
    let kv = Kv::parse(op);
    let parse = |b: &[u8]| {
        acc(|| Ieee802154Repr::parse(&Ieee802154Frame::new_unchecked(b)), |x| match x {
            Ok(r) => show_repr(&r),
            Err(_) => "Err".into(),
        })
    };
    if op.starts_with("emit") {
        let repr = repr_of(&kv);
        let mut buf = kv.b("buf");
        let blen = repr.buffer_len();
        match guard(|| repr.emit(&mut Ieee802154Frame::new_unchecked(&mut buf[..]))) {
            None => format!("ret PANIC | - | blen={}", blen),
            Some(()) => format!("ret {} | {} | blen={}", show_bytes(&buf), parse(&buf), blen),
        }
    } else {
        let bytes = kv.b("bytes");
        let okerr = |ok: bool| if ok { "ok".to_string() } else { "err".to_string() };
        let chk = acc(|| Ieee802154Frame::new_checked(&bytes[..]).is_ok(), okerr);
        let len = acc(|| Ieee802154Frame::new_unchecked(&bytes[..]).check_len().is_ok(), okerr);
        let mut s = format!("chk {} len {}", chk, len);
        if len == "ok" {
            let p = Ieee802154Frame::new_unchecked(&bytes[..]);
            let b = |v: bool| (v as u8).to_string();
            s += &format!(
                " acc ft={} sec={} fp={} ar={} c={} sns={} ie={} dm={} ver={} sm={} seq={} dpan={} dst={} span={} src={}",
                acc(|| u8::from(p.frame_type()), |t| t.to_string()),
                acc(|| p.security_enabled(), b),
                acc(|| p.frame_pending(), b),
                acc(|| p.ack_request(), b),
                acc(|| p.pan_id_compression(), b),
                acc(|| p.sequence_number_suppression(), b),
                acc(|| p.ie_present(), b),
                acc(|| u8::from(p.dst_addressing_mode()), |t| t.to_string()),
                acc(|| u8::from(p.frame_version()), |t| t.to_string()),
                acc(|| u8::from(p.src_addressing_mode()), |t| t.to_string()),
                acc(|| p.sequence_number(), |t| show_ou8(&t)),
                acc(|| p.dst_pan_id(), |t| show_pan(&t)),
                acc(|| p.dst_addr(), |t| show_addr(&t)),
                acc(|| p.src_pan_id(), |t| show_pan(&t)),
                acc(|| p.src_addr(), |t| show_addr(&t)),
            );
            s += &format!(
                " hdr={} payload={}",
                acc(|| p.mac_header().to_vec(), |t| show_bytes(&t)),
                acc(|| p.payload().map(|x| x.to_vec()), |t| oslice(t.as_deref())),
            );
            // the auxiliary security header accessors apply to frames with the security bit set
            if guard(|| p.security_enabled()) == Some(true) {
                s += &format!(
                    " aux lvl={} kim={} fcs={} fctr={} ksrc={} kidx={} mic={}",
                    acc(|| p.security_level(), |t| t.to_string()),
                    acc(|| p.key_identifier_mode(), |t| t.to_string()),
                    acc(|| p.frame_counter_suppressed(), b),
                    acc(|| p.frame_counter(), |t| t.map(|x| x.to_string()).unwrap_or_else(|| "none".into())),
                    acc(|| p.key_source().map(|x| x.to_vec()), |t| oslice(t.as_deref())),
                    acc(|| p.key_index(), |t| show_ou8(&t)),
                    acc(|| p.message_integrity_code().map(|x| x.to_vec()), |t| oslice(t.as_deref())),
                );
            }
        }
        format!("{} parse {}", s, parse(&bytes))
    }
}

pub const FORMAT: Format = Format { name: "ieee154", gen_emit, gen_parse, run_op };
