//! Generic IPv6 extension header: streams wire2-v6ext-emit / wire2-v6ext-parse.
//! Repr fields: nxt=<u8> len=<u8> data=<hex>; `full=1`: the buffer has the whole header length and the
//! payload is copied into payload_mut() after Repr::emit (what every caller does); `full=0`: the buffer is
//! the 2 octets Repr::header_len() declares and the result is parsed with `data` appended.
use super::common::*;
use smoltcp::wire::*;
use svh::*;

fn show_repr(r: &Ipv6ExtHeaderRepr) -> String {
    format!("Ok nxt={} len={} data={}", u8::from(r.next_header), r.length, show_bytes(r.data))
}

fn gen_nxt(r: &mut Rng) -> u8 {
    *r.pick(&[0u8, 6, 17, 43, 44, 58, 59, 60, 255, 1, 41])
}

fn gen_len(r: &mut Rng) -> u8 {
    match r.below(8) {
        0 => 0,
        1 => 1,
        2 => 255,
        3 => 2,
        4 => r.below(256) as u8,
        _ => r.below(5) as u8,
    }
}

fn gen_emit(r: &mut Rng, _tier: &str) -> Vec<String> {
    let (nxt, len) = (gen_nxt(r), gen_len(r));
    let dl = len as usize * 8 + 6;
    let data = gen_payload(r, dl);
    let full = r.chance(2, 3);
    gen_buffers(r, if full { dl + 2 } else { 2 })
        .iter()
        .map(|b| format!("emit buf={} nxt={} len={} data={} full={}", hex(b), nxt, len, hex(&data), full as u8))
        .collect()
}

fn gen_parse(r: &mut Rng, tier: &str) -> Vec<String> {
    let (nxt, len) = (gen_nxt(r), if r.chance(3, 4) { r.below(4) as u8 } else { gen_len(r) });
    let mut base = vec![nxt, len];
    base.extend(r.bytes(len as usize * 8 + 6));
    mutations(r, &base, &[(0, 1), (1, 2)], tier).iter().map(|b| format!("parse bytes={}", hex(b))).collect()
}

fn run_op(op: &str) -> String {
    let kv = Kv::parse(op);
    let parse = |b: &[u8]| {
        acc(|| Ipv6ExtHeaderRepr::parse(&Ipv6ExtHeader::new_unchecked(b)).map(|r| show_repr(&r)), |x| match x {
            Ok(s) => s,
            Err(_) => "Err".into(),
        })
    };
    if op.starts_with("emit") {
        let data = kv.b("data");
        let repr = Ipv6ExtHeaderRepr { next_header: IpProtocol::from(kv.u("nxt") as u8), length: kv.u("len") as u8, data: &data };
        let mut buf = kv.b("buf");
        let full = kv.flag("full");
        let res = guard(|| {
            let mut h = Ipv6ExtHeader::new_unchecked(&mut buf[..]);
            repr.emit(&mut h);
            if full {
                h.payload_mut().copy_from_slice(&data);
            }
        });
        match res {
            None => format!("ret PANIC | - | blen={}", repr.header_len()),
            Some(()) => {
                let mut whole = buf.clone();
                if !full {
                    whole.extend_from_slice(&data);
                }
                format!("ret {} | {} | blen={}", show_bytes(&buf), parse(&whole), repr.header_len())
            }
        }
    } else {
        let bytes = kv.b("bytes");
        let chk = acc(|| Ipv6ExtHeader::new_checked(&bytes[..]).is_ok(), |ok| if ok { "ok".into() } else { "err".into() });
        let mut s = format!("chk {}", chk);
        if chk == "ok" {
            let p = Ipv6ExtHeader::new_unchecked(&bytes[..]);
            s += &format!(
                " acc nxt={} len={} payload={}",
                acc(|| u8::from(p.next_header()), |t| t.to_string()),
                acc(|| p.header_len(), |t| t.to_string()),
                acc(|| p.payload().to_vec(), |a| show_bytes(&a)),
            );
        }
        format!("{} parse {}", s, parse(&bytes))
    }
}

pub const FORMAT: Format = Format { name: "v6ext", gen_emit, gen_parse, run_op };
