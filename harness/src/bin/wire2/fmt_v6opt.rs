//! IPv6 extension-header option + options iterator: streams wire2-v6opt-emit / wire2-v6opt-parse.
//! Repr fields: kind=pad1 | kind=padn len=<u8> | kind=ra val=<u16> | kind=unk type=<u8> len=<u8> data=<hex>.
//! The crate is built without proto-rpl: type 0x63 parses as Unknown { type_: Rpl, .. }.
//! parse ops additionally run `Ipv6OptionsIterator` over the whole byte string (`iter=[…]`, every
//! `next()` under catch_unwind, `LOOP` if it does not end within len+2 calls).
use super::common::*;
use smoltcp::wire::*;
use svh::*;

#[derive(Clone, Debug)]
pub enum Opt {
    Pad1,
    PadN(u8),
    Ra(u16),
    Unk(u8, u8, Vec<u8>),
}

impl Opt {
    pub fn repr(&self) -> Ipv6OptionRepr<'_> {
        match self {
            Opt::Pad1 => Ipv6OptionRepr::Pad1,
            Opt::PadN(l) => Ipv6OptionRepr::PadN(*l),
            Opt::Ra(v) => Ipv6OptionRepr::RouterAlert(Ipv6OptionRouterAlert::from(*v)),
            Opt::Unk(t, l, d) => Ipv6OptionRepr::Unknown { type_: Ipv6OptionType::from(*t), length: *l, data: d },
        }
    }
    /// k=v fields with a suffix on every key (lists of options: suffix = index)
    pub fn fields(&self, sfx: &str) -> String {
        match self {
            Opt::Pad1 => format!("kind{s}=pad1", s = sfx),
            Opt::PadN(l) => format!("kind{s}=padn len{s}={}", l, s = sfx),
            Opt::Ra(v) => format!("kind{s}=ra val{s}={}", v, s = sfx),
            Opt::Unk(t, l, d) => format!("kind{s}=unk type{s}={} len{s}={} data{s}={}", t, l, hex(d), s = sfx),
        }
    }
    pub fn from_kv(kv: &Kv, sfx: &str) -> Opt {
        let k = |n: &str| format!("{}{}", n, sfx);
        match kv.s(&k("kind")) {
            "pad1" => Opt::Pad1,
            "padn" => Opt::PadN(kv.u(&k("len")) as u8),
            "ra" => Opt::Ra(kv.u(&k("val")) as u16),
            _ => Opt::Unk(kv.u(&k("type")) as u8, kv.u(&k("len")) as u8, kv.b(&k("data"))),
        }
    }
    /// the octets a well-formed option is expected to have on the wire (generator side only)
    pub fn bytes(&self) -> Vec<u8> {
        match self {
            Opt::Pad1 => vec![0],
            Opt::PadN(l) => {
                let mut v = vec![1, *l];
                v.extend(std::iter::repeat(0).take(*l as usize));
                v
            }
            Opt::Ra(x) => vec![5, 2, (*x >> 8) as u8, *x as u8],
            Opt::Unk(t, l, d) => {
                let mut v = vec![*t, *l];
                v.extend_from_slice(d);
                v
            }
        }
    }
}

pub fn show_fields(r: &Ipv6OptionRepr) -> String {
    match r {
        Ipv6OptionRepr::Pad1 => "kind=pad1".into(),
        Ipv6OptionRepr::PadN(l) => format!("kind=padn len={}", l),
        Ipv6OptionRepr::RouterAlert(a) => format!("kind=ra val={}", u16::from(*a)),
        Ipv6OptionRepr::Unknown { type_, length, data } => {
            format!("kind=unk type={} len={} data={}", u8::from(*type_), length, show_bytes(data))
        }
        _ => "kind=other".into(),
    }
}

pub fn show_item(r: &Ipv6OptionRepr) -> String {
    match r {
        Ipv6OptionRepr::Pad1 => "pad1".into(),
        Ipv6OptionRepr::PadN(l) => format!("padn:{}", l),
        Ipv6OptionRepr::RouterAlert(a) => format!("ra:{}", u16::from(*a)),
        Ipv6OptionRepr::Unknown { type_, length, data } => format!("unk:{}:{}:{}", u8::from(*type_), length, show_bytes(data)),
        _ => "other".into(),
    }
}

fn gen_optlen(r: &mut Rng) -> u8 {
    match r.below(12) {
        0 => 0,
        1 => 1,
        2 => 2,
        3 => 255,
        4 => 254,
        5 => 4,
        6 => 6,
        7 => r.below(256) as u8,
        _ => r.below(12) as u8,
    }
}

fn gen_unk_type(r: &mut Rng) -> u8 {
    loop {
        let t = match r.below(4) {
            0 => *r.pick(&[2u8, 3, 4, 6, 7, 0x63, 0x62, 0x64, 0xc2, 0x1e, 0x3f, 0x40, 0x41, 0x80, 0x85, 0xc0, 0xc5, 0xff, 0xfe]),
            1 => 0x63,
            _ => r.next() as u8,
        };
        if t != 0 && t != 1 && t != 5 {
            return t;
        }
    }
}

/// a well-formed option (inside the proviso)
pub fn gen_wf_opt(r: &mut Rng) -> Opt {
    match r.below(8) {
        0 => Opt::Pad1,
        1 | 2 => Opt::PadN(gen_optlen(r)),
        3 | 4 => Opt::Ra(match r.below(3) {
            0 => r.below(4) as u16,
            _ => gen_u16(r),
        }),
        _ => {
            let l = gen_optlen(r);
            Opt::Unk(gen_unk_type(r), l, gen_payload(r, l as usize))
        }
    }
}

/// mostly well-formed; sometimes outside the proviso (named type in an Unknown, data longer / shorter than length)
pub fn gen_opt(r: &mut Rng) -> Opt {
    if r.chance(5, 6) {
        return gen_wf_opt(r);
    }
    let l = gen_optlen(r);
    let (more, less) = (1 + r.below(4) as usize, 1 + r.below(2) as usize);
    match r.below(3) {
        0 => Opt::Unk(*r.pick(&[0u8, 1, 5]), l, gen_payload(r, l as usize)),
        1 => Opt::Unk(gen_unk_type(r), l, gen_payload(r, l as usize + more)),
        _ => Opt::Unk(gen_unk_type(r), l, gen_payload(r, (l as usize).saturating_sub(less))),
    }
}

fn gen_emit(r: &mut Rng, _tier: &str) -> Vec<String> {
    let o = gen_opt(r);
    let bl = o.repr().buffer_len();
    // now and then a buffer one octet shorter / longer than declared (the model must agree there too)
    let len = match r.below(14) {
        0 => bl.saturating_sub(1),
        1 => bl + 1,
        _ => bl,
    };
    gen_buffers(r, len).iter().map(|b| format!("emit buf={} {}", hex(b), o.fields(""))).collect()
}

/// option areas for the parse stream: one option, or several back to back
pub fn gen_area(r: &mut Rng) -> Vec<u8> {
    let n = match r.below(4) {
        0 | 1 => 1,
        _ => 1 + r.below(7) as usize,
    };
    let mut v = vec![];
    for _ in 0..n {
        v.extend(gen_wf_opt(r).bytes());
    }
    v
}

fn gen_parse(r: &mut Rng, tier: &str) -> Vec<String> {
    let base = gen_area(r);
    let mut all = mutations(r, &base, &[(0, 1), (1, 2)], tier);
    // option walks with zero / oversized lengths
    let t = gen_unk_type(r);
    all.push([1u8, 0].repeat(1 + r.below(40) as usize));
    all.push([t, 0].repeat(1 + r.below(40) as usize));
    all.push(vec![0u8; r.below(70) as usize]);
    all.push(vec![t, 255]);
    all.push({
        let mut v = vec![t, 255];
        v.extend(r.bytes(254));
        v
    });
    all.push({
        let mut v = vec![1, 253];
        v.extend(r.bytes(253));
        v.extend([5, 2, 0, 0, 5, 3, 0, 0, 0]);
        v
    });
    all.push(vec![5, 2, 0]);
    all.push(vec![5, 1, 0, 0]);
    all.push(vec![5, 0]);
    all.iter().map(|b| format!("parse bytes={}", hex(b))).collect()
}

pub fn iter_items(bytes: &[u8]) -> String {
    let mut it = Ipv6OptionsIterator::new(bytes);
    let mut items: Vec<String> = vec![];
    let mut n = 0usize;
    loop {
        n += 1;
        if n > bytes.len() + 2 {
            items.push("LOOP".into());
            break;
        }
        match guard(|| it.next()) {
            None => {
                items.push("PANIC".into());
                break;
            }
            Some(None) => break,
            Some(Some(Ok(r))) => items.push(show_item(&r)),
            Some(Some(Err(_))) => items.push("Err".into()),
        }
    }
    format!("[{}]", items.join(","))
}

fn run_op(op: &str) -> String {
    let kv = Kv::parse(op);
    let parse = |b: &[u8]| {
        acc(|| Ipv6OptionRepr::parse(&Ipv6Option::new_unchecked(b)).map(|r| format!("Ok {}", show_fields(&r))), |x| match x {
            Ok(s) => s,
            Err(_) => "Err".into(),
        })
    };
    if op.starts_with("emit") {
        let o = Opt::from_kv(&kv, "");
        let mut buf = kv.b("buf");
        let res = guard(|| {
            let repr = o.repr();
            repr.emit(&mut Ipv6Option::new_unchecked(&mut buf[..]));
        });
        match res {
            None => "ret PANIC | -".to_string(),
            Some(()) => format!("ret {} | {}", show_bytes(&buf), parse(&buf)),
        }
    } else {
        let bytes = kv.b("bytes");
        let chk = acc(|| Ipv6Option::new_checked(&bytes[..]).is_ok(), |ok| if ok { "ok".into() } else { "err".into() });
        let mut s = format!("chk {}", chk);
        if chk == "ok" {
            let p = Ipv6Option::new_unchecked(&bytes[..]);
            let t = guard(|| p.option_type());
            s += &format!(
                " acc type={} ft={}",
                match t {
                    Some(t) => u8::from(t).to_string(),
                    None => "PANIC".into(),
                },
                match t {
                    Some(t) => acc(|| u8::from(Ipv6OptionFailureType::from(t)), |x| x.to_string()),
                    None => "-".into(),
                }
            );
            // data_len / data are documented to panic on a one-octet Pad1: they apply to all other types
            if t != Some(Ipv6OptionType::Pad1) {
                s += &format!(" dlen={} data={}", acc(|| p.data_len(), |x| x.to_string()), acc(|| p.data().to_vec(), |a| show_bytes(&a)));
            }
        }
        format!("{} parse {} iter={}", s, parse(&bytes), iter_items(&bytes))
    }
}

pub const FORMAT: Format = Format { name: "v6opt", gen_emit, gen_parse, run_op };
