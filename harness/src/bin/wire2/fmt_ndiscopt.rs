//! NDISC option (src/wire/ndiscoption.rs): streams wire2-ndiscopt-emit / wire2-ndiscopt-parse.
//! Repr fields:
//!   kind=slla|tlla addr=<hex 0..8 octets>
//!   kind=prefix plen=<u8> flags=<bits> valid=<secs> pref=<secs> prefix=<hex16>
//!   kind=redir src=<hex16> dst=<hex16> nxt=<u8> plen=<usize> hop=<u8> data=<hex>
//!   kind=mtu mtu=<u32>
//!   kind=unknown type=<u8> len=<u8> data=<hex>
//! Durations are whole seconds on both sides (the model carries the second count).
use super::common::*;
use smoltcp::time::Duration;
use smoltcp::wire::*;
use svh::*;

pub fn a16(b: &[u8]) -> Ipv6Address {
    let mut a = [0u8; 16];
    a.copy_from_slice(b);
    Ipv6Address::from(a)
}

pub fn show_prefix(p: &NdiscPrefixInformation) -> String {
    format!(
        "plen={} flags={} valid={} pref={} prefix={}",
        p.prefix_len,
        p.flags.bits(),
        p.valid_lifetime.secs(),
        p.preferred_lifetime.secs(),
        hex(&p.prefix.octets())
    )
}

pub fn show_redir(h: &NdiscRedirectedHeader) -> String {
    format!(
        "src={} dst={} nxt={} plen={} hop={} data={}",
        hex(&h.header.src_addr.octets()),
        hex(&h.header.dst_addr.octets()),
        u8::from(h.header.next_header),
        h.header.payload_len,
        h.header.hop_limit,
        show_bytes(h.data)
    )
}

fn show_repr(r: &NdiscOptionRepr) -> String {
    match r {
        NdiscOptionRepr::SourceLinkLayerAddr(a) => format!("Ok kind=slla addr={}", hex(a.as_bytes())),
        NdiscOptionRepr::TargetLinkLayerAddr(a) => format!("Ok kind=tlla addr={}", hex(a.as_bytes())),
        NdiscOptionRepr::PrefixInformation(p) => format!("Ok kind=prefix {}", show_prefix(p)),
        NdiscOptionRepr::RedirectedHeader(h) => format!("Ok kind=redir {}", show_redir(h)),
        NdiscOptionRepr::Mtu(m) => format!("Ok kind=mtu mtu={}", m),
        NdiscOptionRepr::Unknown { type_, length, data } => format!("Ok kind=unknown type={} len={} data={}", type_, length, show_bytes(data)),
    }
}

pub fn gen_lladdr(r: &mut Rng) -> Vec<u8> {
    // mostly 6 / 8 octets (inside the proviso), sometimes other lengths a RawHardwareAddress can hold
    let n = match r.below(10) {
        0 => 0,
        1 => 2,
        2 => r.below(9) as usize,
        3 | 4 | 5 => 8,
        _ => 6,
    };
    match r.below(4) {
        0 => vec![0u8; n],
        1 => vec![0xffu8; n],
        _ => r.bytes(n),
    }
}

pub fn gen_secs(r: &mut Rng) -> u64 {
    match r.below(8) {
        0 => gen_u32(r) as u64 + (1u64 << 32) * (r.below(3)), // sometimes beyond the 32-bit field
        1 => 0xffff_ffff,
        2 => 0,
        _ => gen_u32(r) as u64,
    }
}

pub fn gen_prefix_fields(r: &mut Rng) -> String {
    format!("plen={} flags={} valid={} pref={} prefix={}", *r.pick(&[0u8, 1, 64, 127, 128, 129, 255, 48]), *r.pick(&[0u8, 0x40, 0x80, 0xc0]), gen_secs(r), gen_secs(r), hex(&gen_ipv6(r)))
}

/// redirected-header fields + the option's buffer length; mostly header.payload_len = |data|
pub fn gen_redir_fields(r: &mut Rng, tier: &str) -> (String, usize) {
    let dl = match r.below(12) {
        0 => 0,
        1 => 1,
        2 => 7,
        3 => 8,
        4 => 9,
        5 => 1992,
        6 => 1991,
        7 => if tier == "thorough" { 1993 + r.below(64) as usize } else { 1993 },
        8 => r.below(1993) as usize,
        _ => r.below(64) as usize,
    };
    let data = gen_payload(r, dl);
    let plen = match r.below(10) {
        0 => dl + 1,
        1 => dl.saturating_sub(1),
        2 => gen_u16(r) as usize,
        _ => dl,
    };
    let s = format!("src={} dst={} nxt={} plen={} hop={} data={}", hex(&gen_ipv6(r)), hex(&gen_ipv6(r)), gen_u8(r), plen, gen_u8(r), hex(&data));
    (s, (8 + 40 + dl).div_ceil(8) * 8)
}

fn gen_emit(r: &mut Rng, tier: &str) -> Vec<String> {
    let (fields, len) = match r.below(9) {
        0 | 1 => {
            let a = gen_lladdr(r);
            (format!("kind={} addr={}", if r.chance(1, 2) { "slla" } else { "tlla" }, hex(&a)), (2 + a.len()).div_ceil(8) * 8)
        }
        2 | 3 => (format!("kind=prefix {}", gen_prefix_fields(r)), 32),
        4 | 5 => {
            let (s, l) = gen_redir_fields(r, tier);
            (format!("kind=redir {}", s), l)
        }
        6 => (format!("kind=mtu mtu={}", gen_u32(r)), 8),
        _ => {
            let ty = match r.below(4) {
                0 => *r.pick(&[0u8, 6, 255, 14, 24, 25, 31]),
                1 => 1 + r.below(5) as u8, // a known type inside Unknown: outside the proviso
                _ => gen_u8(r),
            };
            let l = match r.below(8) {
                0 => 0u8,
                1 => 255,
                2 => r.below(256) as u8,
                _ => 1 + r.below(4) as u8,
            };
            let dl = if r.chance(1, 12) { r.below(20) as usize } else { (l as usize * 8).saturating_sub(2) };
            (format!("kind=unknown type={} len={} data={}", ty, l, hex(&gen_payload(r, dl))), l as usize * 8)
        }
    };
    gen_buffers(r, len).iter().map(|b| format!("emit buf={} {}", hex(b), fields)).collect()
}

fn parse_repr<'a>(kv: &Kv, data: &'a [u8]) -> NdiscOptionRepr<'a> {
    match kv.s("kind") {
        "slla" => NdiscOptionRepr::SourceLinkLayerAddr(RawHardwareAddress::from_bytes(&kv.b("addr"))),
        "tlla" => NdiscOptionRepr::TargetLinkLayerAddr(RawHardwareAddress::from_bytes(&kv.b("addr"))),
        "prefix" => NdiscOptionRepr::PrefixInformation(prefix_of(kv)),
        "redir" => NdiscOptionRepr::RedirectedHeader(redir_of(kv, data)),
        "mtu" => NdiscOptionRepr::Mtu(kv.u("mtu") as u32),
        _ => NdiscOptionRepr::Unknown { type_: kv.u("type") as u8, length: kv.u("len") as u8, data },
    }
}

pub fn prefix_of(kv: &Kv) -> NdiscPrefixInformation {
    NdiscPrefixInformation {
        prefix_len: kv.u("plen") as u8,
        flags: NdiscPrefixInfoFlags::from_bits_truncate(kv.u("flags") as u8),
        valid_lifetime: Duration::from_secs(kv.u("valid")),
        preferred_lifetime: Duration::from_secs(kv.u("pref")),
        prefix: a16(&kv.b("prefix")),
    }
}

pub fn redir_of<'a>(kv: &Kv, data: &'a [u8]) -> NdiscRedirectedHeader<'a> {
    NdiscRedirectedHeader {
        header: Ipv6Repr { src_addr: a16(&kv.b("src")), dst_addr: a16(&kv.b("dst")), next_header: IpProtocol::from(kv.u("nxt") as u8), payload_len: kv.u("plen") as usize, hop_limit: kv.u("hop") as u8 },
        data,
    }
}

/// one well-formed option as bytes (emitted by the real code into a random buffer)
pub fn gen_option_bytes(r: &mut Rng, tier: &str) -> Vec<u8> {
    loop {
        let ops = gen_emit(r, tier);
        let op = &ops[3];
        let kv = Kv::parse(op);
        let data = kv.opt("data").map(|_| kv.b("data")).unwrap_or_default();
        let mut buf = kv.b("buf");
        if buf.len() > 200 && r.chance(3, 4) {
            continue;
        }
        let ok = guard(|| {
            let repr = parse_repr(&kv, &data);
            let mut opt = NdiscOption::new_unchecked(&mut buf[..]);
            repr.emit(&mut opt);
        });
        if ok.is_some() {
            return buf;
        }
    }
}

fn gen_parse(r: &mut Rng, tier: &str) -> Vec<String> {
    let mut base = gen_option_bytes(r, tier);
    if r.chance(1, 6) {
        // a longer length field than the repr needs (parse accepts, emit shrinks)
        let extra = 8 * (1 + r.below(3) as usize);
        if base[1] as usize + extra / 8 <= 255 {
            base[1] += (extra / 8) as u8;
            base.extend(r.bytes(extra));
        }
    }
    let mut fields = vec![(0, 1), (1, 2), (2, 3), (3, 4), (4, 8)];
    if base.len() >= 48 {
        fields.extend_from_slice(&[(8, 9), (12, 14), (14, 15)]);
    }
    mutations(r, &base, &fields, tier).iter().map(|b| format!("parse bytes={}", hex(b))).collect()
}

fn run_op(op: &str) -> String {
    let kv = Kv::parse(op);
    let parse = |b: &[u8]| {
        acc(|| NdiscOptionRepr::parse(&NdiscOption::new_unchecked(b)).map(|r| show_repr(&r)), |x| match x {
            Ok(s) => s,
            Err(_) => "Err".into(),
        })
    };
    if op.starts_with("emit") {
        let data = kv.opt("data").map(|_| kv.b("data")).unwrap_or_default();
        let mut buf = kv.b("buf");
        let res = guard(|| {
            let repr = parse_repr(&kv, &data);
            let blen = repr.buffer_len();
            let mut opt = NdiscOption::new_unchecked(&mut buf[..]);
            repr.emit(&mut opt);
            blen
        });
        match res {
            None => "ret PANIC | -".to_string(),
            Some(bl) => format!("ret {} blen={} | {}", show_bytes(&buf), bl, parse(&buf)),
        }
    } else {
        let bytes = kv.b("bytes");
        let okerr = |ok: bool| if ok { "ok".to_string() } else { "err".to_string() };
        let cl = acc(|| NdiscOption::new_unchecked(&bytes[..]).check_len().is_ok(), okerr);
        let chk = acc(|| NdiscOption::new_checked(&bytes[..]).is_ok(), okerr);
        let mut s = format!("cl {} chk {}", cl, chk);
        if chk == "ok" {
            let p = NdiscOption::new_unchecked(&bytes[..]);
            s += &format!(
                " acc type={} len={} lladdr={} mtu={} data={} plen={} flags={} valid={} pref={} prefix={}",
                acc(|| u8::from(p.option_type()), |t| t.to_string()),
                acc(|| p.data_len(), |t| t.to_string()),
                acc(|| p.link_layer_addr(), |a| hex(a.as_bytes())),
                acc(|| p.mtu(), |t| t.to_string()),
                acc(|| p.data().to_vec(), |a| show_bytes(&a)),
                acc(|| p.prefix_len(), |t| t.to_string()),
                acc(|| p.prefix_flags(), |t| t.bits().to_string()),
                acc(|| p.valid_lifetime(), |t| t.secs().to_string()),
                acc(|| p.preferred_lifetime(), |t| t.secs().to_string()),
                acc(|| p.prefix(), |a| hex(&a.octets())),
            );
        }
        format!("{} parse {}", s, parse(&bytes))
    }
}

pub const FORMAT: Format = Format { name: "ndiscopt", gen_emit, gen_parse, run_op };
