//! IPv6 Routing header (Type 2 / RPL source routing): streams wire2-v6routing-emit / wire2-v6routing-parse.
//! Repr fields: kind=type2 sl=<u8> home=<hex 16> | kind=rpl sl=<u8> ci=<u8> ce=<u8> pad=<u8> addrs=<hex>.
//! The header starts at the octet after the extension header's length octet.
use super::common::*;
use smoltcp::wire::*;
use svh::*;

fn show_repr(r: &Ipv6RoutingRepr) -> String {
    match r {
        Ipv6RoutingRepr::Type2 { segments_left, home_address } => {
            format!("Ok kind=type2 sl={} home={}", segments_left, hex(&home_address.octets()))
        }
        Ipv6RoutingRepr::Rpl { segments_left, cmpr_i, cmpr_e, pad, addresses } => {
            format!("Ok kind=rpl sl={} ci={} ce={} pad={} addrs={}", segments_left, cmpr_i, cmpr_e, pad, show_bytes(addresses))
        }
        _ => "Ok kind=other".into(),
    }
}

fn gen_nibble(r: &mut Rng, wf: bool) -> u8 {
    if wf {
        match r.below(5) {
            0 => 0,
            1 => 15,
            2 => 1,
            3 => 14,
            _ => r.below(16) as u8,
        }
    } else {
        *r.pick(&[16u8, 17, 31, 32, 0x80, 0xf0, 0xff, 0x1f, 0xa5])
    }
}

fn gen_addrs_len(r: &mut Rng) -> usize {
    match r.below(10) {
        0 => 0,
        1 => 1,
        2 => 2,
        3 => 8,
        4 => 16,
        5 => 32,
        6 => 2 + 8 * r.below(6) as usize,
        7 => r.below(300) as usize,
        _ => r.below(40) as usize,
    }
}

fn gen_emit(r: &mut Rng, _tier: &str) -> Vec<String> {
    let sl = gen_u8(r);
    let (fields, bl) = if r.chance(2, 5) {
        (format!("kind=type2 sl={} home={}", sl, hex(&gen_ipv6(r))), 22usize)
    } else {
        // mostly 4-bit values; sometimes outside the proviso (the u8 fields hold more than the wire format)
        let wf = r.chance(5, 6);
        let w: Vec<bool> = (0..3).map(|_| wf || r.chance(1, 2)).collect();
        let (ci, ce, pad) = (gen_nibble(r, w[0]), gen_nibble(r, w[1]), gen_nibble(r, w[2]));
        let n = gen_addrs_len(r);
        let addrs = gen_payload(r, n);
        (format!("kind=rpl sl={} ci={} ce={} pad={} addrs={}", sl, ci, ce, pad, hex(&addrs)), 6 + addrs.len())
    };
    let len = match r.below(30) {
        0 => bl - 1,
        1 => bl + 1 + r.below(4) as usize,
        2 => r.below(7) as usize,
        _ => bl,
    };
    gen_buffers(r, len).iter().map(|b| format!("emit buf={} {}", hex(b), fields)).collect()
}

fn gen_parse(r: &mut Rng, tier: &str) -> Vec<String> {
    let sl = gen_u8(r);
    let base: Vec<u8> = match r.below(5) {
        0 | 1 => {
            let mut v = vec![2, sl, 0, 0, 0, 0];
            v.extend(gen_ipv6(r));
            v
        }
        2 | 3 => {
            let mut v = vec![3, sl, r.next() as u8, (r.below(16) as u8) << 4, 0, 0];
            let n = gen_addrs_len(r);
            v.extend(r.bytes(n));
            v
        }
        _ => {
            // other routing types (parse: Err) and reserved octets that are not zero
            let mut v = vec![*r.pick(&[0u8, 1, 4, 252, 253, 254, 255, 2, 3]), sl];
            let n = r.below(30) as usize;
            v.extend(r.bytes(n));
            v
        }
    };
    mutations(r, &base, &[(0, 1), (1, 2), (2, 3), (3, 4), (4, 6)], tier).iter().map(|b| format!("parse bytes={}", hex(b))).collect()
}

fn run_op(op: &str) -> String {
    let kv = Kv::parse(op);
    let parse = |b: &[u8]| {
        acc(
            || {
                let h = Ipv6RoutingHeader::new_unchecked(b);
                Ipv6RoutingRepr::parse(&h).map(|r| show_repr(&r))
            },
            |x| match x {
                Ok(s) => s,
                Err(_) => "Err".into(),
            },
        )
    };
    if op.starts_with("emit") {
        let mut buf = kv.b("buf");
        let addrs = if kv.s("kind") == "rpl" { kv.b("addrs") } else { vec![] };
        let repr = if kv.s("kind") == "type2" {
            let mut a = [0u8; 16];
            a.copy_from_slice(&kv.b("home"));
            Ipv6RoutingRepr::Type2 { segments_left: kv.u("sl") as u8, home_address: Ipv6Address::from(a) }
        } else {
            Ipv6RoutingRepr::Rpl {
                segments_left: kv.u("sl") as u8,
                cmpr_i: kv.u("ci") as u8,
                cmpr_e: kv.u("ce") as u8,
                pad: kv.u("pad") as u8,
                addresses: &addrs,
            }
        };
        let res = guard(|| repr.emit(&mut Ipv6RoutingHeader::new_unchecked(&mut buf[..])));
        match res {
            None => "ret PANIC | -".to_string(),
            Some(()) => format!("ret {} | {}", show_bytes(&buf), parse(&buf)),
        }
    } else {
        let bytes = kv.b("bytes");
        let chk = acc(|| Ipv6RoutingHeader::new_checked(&bytes[..]).is_ok(), |ok| if ok { "ok".into() } else { "err".into() });
        let mut s = format!("chk {}", chk);
        if chk == "ok" {
            let p = Ipv6RoutingHeader::new_unchecked(&bytes[..]);
            let t = guard(|| u8::from(p.routing_type()));
            s += &format!(
                " acc type={} sl={}",
                match t {
                    Some(t) => t.to_string(),
                    None => "PANIC".into(),
                },
                acc(|| p.segments_left(), |x| x.to_string())
            );
            // the type-specific getters apply to their own routing type
            if t == Some(2) {
                s += &format!(" home={}", acc(|| p.home_address().octets(), |a| hex(&a)));
            }
            if t == Some(3) {
                s += &format!(
                    " ci={} ce={} pad={} addrs={}",
                    acc(|| p.cmpr_i(), |x| x.to_string()),
                    acc(|| p.cmpr_e(), |x| x.to_string()),
                    acc(|| p.pad(), |x| x.to_string()),
                    acc(|| p.addresses().to_vec(), |a| show_bytes(&a))
                );
            }
        }
        format!("{} parse {}", s, parse(&bytes))
    }
}

pub const FORMAT: Format = Format { name: "v6routing", gen_emit, gen_parse, run_op };
