//! IGMPv1/v2: streams wire2-igmp-emit / wire2-igmp-parse.
//! Repr fields: kind=query|report|leave mrt=<max_resp_time in µs> group=<4 octets> ver=1|2.
use super::common::*;
use smoltcp::time::Duration;
use smoltcp::wire::*;
use svh::*;

fn v4(b: &[u8]) -> Ipv4Address {
    Ipv4Address::new(b[0], b[1], b[2], b[3])
}

fn show_repr(r: &IgmpRepr) -> String {
    let ver = |v: &IgmpVersion| if *v == IgmpVersion::Version1 { 1 } else { 2 };
    match r {
        IgmpRepr::MembershipQuery { max_resp_time, group_addr, version } => {
            format!("Ok kind=query mrt={} group={} ver={}", max_resp_time.total_micros(), hex(&group_addr.octets()), ver(version))
        }
        IgmpRepr::MembershipReport { group_addr, version } => format!("Ok kind=report group={} ver={}", hex(&group_addr.octets()), ver(version)),
        IgmpRepr::LeaveGroup { group_addr } => format!("Ok kind=leave group={}", hex(&group_addr.octets())),
    }
}

fn gen_group(r: &mut Rng) -> [u8; 4] {
    match r.below(6) {
        0 => [0, 0, 0, 0],
        1 => [224, 0, 0, 1],
        2 => [239, 255, 255, 255],
        3 => [224 + r.below(16) as u8, r.next() as u8, r.next() as u8, r.next() as u8],
        4 => [224, 0, 0, 22],
        _ => gen_ipv4(r), // mostly not a group address: parse rejects it
    }
}

/// max_resp_time in µs: the 256 representable values, the boundaries of the code, arbitrary u64
fn gen_mrt(r: &mut Rng) -> u64 {
    match r.below(12) {
        0 => 0,
        1 => 99_999,
        2 => 100_000,
        3 => 12_700_000,
        4 => 12_799_999,
        5 => 12_800_000,
        6 => 3_174_300_000,
        7 => 3_174_400_000,
        8 => u64::MAX,
        9 => r.next(),
        10 => r.below(3_300_000_000),
        _ => {
            // the duration a code stands for (read back from the real parser)
            let c = r.below(256) as u8;
            let b = [0x11, c, 0, 0, 0, 0, 0, 0];
            match IgmpRepr::parse(&IgmpPacket::new_unchecked(&b[..])) {
                Ok(IgmpRepr::MembershipQuery { max_resp_time, .. }) => max_resp_time.total_micros(),
                _ => 0,
            }
        }
    }
}

fn gen_fields(r: &mut Rng) -> String {
    let g = gen_group(r);
    let ver = 1 + r.below(2);
    match r.below(3) {
        0 => format!("kind=query mrt={} group={} ver={}", if ver == 1 && r.chance(3, 4) { 0 } else { gen_mrt(r) }, hex(&g), ver),
        1 => format!("kind=report group={} ver={}", hex(&g), ver),
        _ => format!("kind=leave group={}", hex(&g)),
    }
}

fn repr_of(kv: &Kv) -> IgmpRepr {
    let group_addr = v4(&kv.b("group"));
    let version = if kv.opt("ver") == Some("1") { IgmpVersion::Version1 } else { IgmpVersion::Version2 };
    match kv.s("kind") {
        "query" => IgmpRepr::MembershipQuery { max_resp_time: Duration::from_micros(kv.u("mrt")), group_addr, version },
        "report" => IgmpRepr::MembershipReport { group_addr, version },
        _ => IgmpRepr::LeaveGroup { group_addr },
    }
}

fn gen_emit(r: &mut Rng, _tier: &str) -> Vec<String> {
    let f = gen_fields(r);
    gen_buffers(r, 8).iter().map(|b| format!("emit buf={} {}", hex(b), f)).collect()
}

fn gen_parse(r: &mut Rng, tier: &str) -> Vec<String> {
    let f = gen_fields(r);
    let repr = repr_of(&Kv::parse(&f));
    let mut base = r.bytes(8);
    repr.emit(&mut IgmpPacket::new_unchecked(&mut base[..]));
    if r.chance(1, 3) {
        base[1] = gen_u8(r); // any max resp code
    }
    if r.chance(1, 8) {
        base[0] = *r.pick(&[0x11u8, 0x12, 0x16, 0x17, 0x22, 0x10, 0x18]);
    }
    mutations(r, &base, &[(0, 1), (1, 2), (2, 4), (4, 8)], tier).iter().map(|b| format!("parse bytes={}", hex(b))).collect()
}

fn run_op(op: &str) -> String {
    let kv = Kv::parse(op);
    let parse = |b: &[u8]| {
        acc(|| IgmpRepr::parse(&IgmpPacket::new_unchecked(b)), |x| match x {
            Ok(r) => show_repr(&r),
            Err(_) => "Err".into(),
        })
    };
    if op.starts_with("emit") {
        let repr = repr_of(&kv);
        let mut buf = kv.b("buf");
        match guard(|| repr.emit(&mut IgmpPacket::new_unchecked(&mut buf[..]))) {
            None => format!("ret PANIC | - | blen={}", repr.buffer_len()),
            Some(()) => format!("ret {} | {} | blen={}", show_bytes(&buf), parse(&buf), repr.buffer_len()),
        }
    } else {
        let bytes = kv.b("bytes");
        let chk = acc(|| IgmpPacket::new_checked(&bytes[..]).is_ok(), |ok| if ok { "ok".into() } else { "err".into() });
        let mut s = format!("chk {}", chk);
        if chk == "ok" {
            let p = IgmpPacket::new_unchecked(&bytes[..]);
            s += &format!(
                " acc type={} code={} ck={} group={} vck={}",
                acc(|| u8::from(p.msg_type()), |t| t.to_string()),
                acc(|| p.max_resp_code(), |t| t.to_string()),
                acc(|| p.checksum(), |t| t.to_string()),
                acc(|| p.group_addr().octets().to_vec(), |a| hex(&a)),
                acc(|| p.verify_checksum(), |t| (t as u8).to_string()),
            );
        }
        format!("{} parse {}", s, parse(&bytes))
    }
}

pub const FORMAT: Format = Format { name: "igmp", gen_emit, gen_parse, run_op };
