//! Oracle-only harness for property C03: no received frame sequence can panic, hang or wedge
//! the interface.
//!
//! For each medium (ip, ethernet, ieee802154) a *target* interface is built with TCP
//! (listening, connecting, established), UDP, ICMP, raw, DNS (query in flight) and DHCPv4
//! sockets, IPv4 and 6LoWPAN reassembly enabled.  Well-formed seed frames of every protocol
//! the stack speaks are obtained by letting a real *peer* interface talk to the target
//! (handshakes, pings, UDP, large fragmented datagrams, DNS, NDISC/ARP) and capturing what it
//! sends, plus hand-built DHCP/DNS replies, router advertisements, MLD/IGMP queries and IPv6
//! extension headers.  A case is a sequence of (mutated seed | random bytes) frames with time
//! advances.  After the sequence a fresh, well-formed ICMP echo request must still be answered.
//!
//! FAIL classes: c03-poll-panicked, c03-poll-hang, c03-no-echo-reply.
//!
//! Case format (replayable):
//!   case <id> medium=<ip|eth|154> [ck=tx] [db=<octets of the DHCP socket's receive packet buffer>]
//!   f <dt_ms> <hex frame>          deliver the frame, poll
//!   l <dt_ms> <k> | j <dt_ms> <k>  leave / (re)join multicast group k (see `group`), poll
//!   b <dt_ms> <n>                  device back-pressure: n tx tokens left (255 = unlimited), poll
//!   end
//!
//! The target is a member of two IPv4 groups (not on IEEE 802.15.4) and one IPv6 group, so that IGMP / MLD
//! queries (general, group-specific, v1/v2; hand-built seeds) drive the host side of
//! iface/interface/multicast.rs: delayed reports, leaves, also while the device hands out no tx token.
use smoltcp::iface::{Config, Interface, SocketHandle, SocketSet, SocketStorage};
use smoltcp::phy::Medium;
use smoltcp::socket::{dhcpv4, dns, icmp, raw, tcp, udp};
use smoltcp::time::{Duration, Instant};
use smoltcp::wire::*;
use std::io::Write;
use std::sync::Mutex;
use svh::dev::QDev;
use svh::*;

static LAST_PANIC: Mutex<String> = Mutex::new(String::new());

fn hw(medium: Medium, last: u8) -> HardwareAddress {
    match medium {
        Medium::Ethernet => HardwareAddress::Ethernet(EthernetAddress([0x02, 0, 0, 0, 0, last])),
        Medium::Ieee802154 => HardwareAddress::Ieee802154(Ieee802154Address::Extended([0x02, 0, 0, 0, 0, 0, 0, last])),
        Medium::Ip => HardwareAddress::Ip,
    }
}

fn ll_addr(medium: Medium, last: u8) -> Ipv6Address {
    match medium {
        Medium::Ieee802154 => Ieee802154Address::Extended([0x02, 0, 0, 0, 0, 0, 0, last]).as_link_local_address().unwrap(),
        _ => Ipv6Address::new(0xfe80, 0, 0, 0, 0, 0, 0, last as u16),
    }
}

fn mtu_of(medium: Medium) -> usize {
    match medium {
        Medium::Ethernet => 1514,
        Medium::Ieee802154 => 127,
        Medium::Ip => 1500,
    }
}

struct Node {
    medium: Medium,
    iface: Interface,
    dev: QDev,
    sockets: SocketSet<'static>,
    tcp_listen: SocketHandle,
    tcp_client: SocketHandle,
    udp: SocketHandle,
    icmp: SocketHandle,
    #[allow(dead_code)]
    raw: SocketHandle,
    dns: SocketHandle,
    dhcp: Option<SocketHandle>,
    /// (query id, source port) of the last DNS query and xid of the last DHCP message this node transmitted
    seen_dns: Option<(u16, u16)>,
    seen_dhcp_xid: Option<u32>,
}

fn mk_node(medium: Medium, last: u8, seed: u64) -> Node {
    mk_node_ck(medium, last, seed, false)
}

/// `ck_tx_only`: the device "verifies checksums in hardware" - the stack fills checksums on transmit but does
/// not verify them on receive (Checksum::Tx for every protocol), so mutated packet bodies reach the code behind
/// the checksum gates (Interface::new captures the capabilities once).
fn mk_node_ck(medium: Medium, last: u8, seed: u64, ck_tx_only: bool) -> Node {
    let mut dev = QDev::new(medium, mtu_of(medium));
    if ck_tx_only {
        let mut c = smoltcp::phy::ChecksumCapabilities::default();
        c.ipv4 = smoltcp::phy::Checksum::Tx;
        c.udp = smoltcp::phy::Checksum::Tx;
        c.tcp = smoltcp::phy::Checksum::Tx;
        c.icmpv4 = smoltcp::phy::Checksum::Tx;
        c.icmpv6 = smoltcp::phy::Checksum::Tx;
        dev.checksum = c;
    }
    let mut cfg = Config::new(hw(medium, last));
    cfg.random_seed = seed;
    cfg.pan_id = Some(Ieee802154Pan(0xbeef));
    cfg.slaac = medium != Medium::Ip;
    let mut iface = Interface::new(cfg, &mut dev, Instant::ZERO);
    iface.update_ip_addrs(|a| {
        if medium != Medium::Ieee802154 {
            a.push(IpCidr::new(IpAddress::v4(10, 0, 0, last), 24)).unwrap();
        }
        a.push(IpCidr::new(IpAddress::Ipv6(ll_addr(medium, last)), 64)).unwrap();
    });
    let storage: Vec<SocketStorage<'static>> = Vec::new();
    let mut sockets = SocketSet::new(storage);
    let mk_tcp = || tcp::Socket::new(tcp::SocketBuffer::new(vec![0; 2048]), tcp::SocketBuffer::new(vec![0; 2048]));
    let mut l = mk_tcp();
    l.listen(80).unwrap();
    let tcp_listen = sockets.add(l);
    let tcp_client = sockets.add(mk_tcp());
    let mut u = udp::Socket::new(
        udp::PacketBuffer::new(vec![udp::PacketMetadata::EMPTY; 4], vec![0; 2048]),
        udp::PacketBuffer::new(vec![udp::PacketMetadata::EMPTY; 4], vec![0; 2048]),
    );
    u.bind(7).unwrap();
    let udp = sockets.add(u);
    let mut ic = icmp::Socket::new(
        icmp::PacketBuffer::new(vec![icmp::PacketMetadata::EMPTY; 4], vec![0; 1024]),
        icmp::PacketBuffer::new(vec![icmp::PacketMetadata::EMPTY; 4], vec![0; 1024]),
    );
    ic.bind(icmp::Endpoint::Ident(0x1234)).unwrap();
    let icmp = sockets.add(ic);
    // two more ICMP sockets, bound to the ICMP errors about the UDP port 7 / the TCP port 80 of this node
    // (icmp::Socket::accepts_v4 / accepts_v6 parse the quoted datagram of an error only for such sockets)
    for ep in [icmp::Endpoint::Udp(7u16.into()), icmp::Endpoint::Tcp(80u16.into())] {
        let mut e = icmp::Socket::new(
            icmp::PacketBuffer::new(vec![icmp::PacketMetadata::EMPTY; 2], vec![0; 512]),
            icmp::PacketBuffer::new(vec![icmp::PacketMetadata::EMPTY; 2], vec![0; 512]),
        );
        e.bind(ep).unwrap();
        sockets.add(e);
    }
    let rw = raw::Socket::new(
        Some(if medium == Medium::Ieee802154 { IpVersion::Ipv6 } else { IpVersion::Ipv4 }),
        Some(IpProtocol::Unknown(253)),
        raw::PacketBuffer::new(vec![raw::PacketMetadata::EMPTY; 4], vec![0; 2048]),
        raw::PacketBuffer::new(vec![raw::PacketMetadata::EMPTY; 4], vec![0; 2048]),
    );
    let raw = sockets.add(rw);
    let q: Vec<Option<dns::DnsQuery>> = vec![None, None];
    let server = if medium == Medium::Ieee802154 { IpAddress::Ipv6(ll_addr(medium, 2)) } else { IpAddress::v4(10, 0, 0, 2) };
    let dns = sockets.add(dns::Socket::new(&[server], q));
    let dhcp = if medium == Medium::Ethernet { Some(sockets.add(dhcpv4::Socket::new())) } else { None };
    Node { medium, iface, dev, sockets, tcp_listen, tcp_client, udp, icmp, raw, dns, dhcp, seen_dns: None, seen_dhcp_xid: None }
}

fn peer_ip(medium: Medium, last: u8) -> IpAddress {
    if medium == Medium::Ieee802154 { IpAddress::Ipv6(ll_addr(medium, last)) } else { IpAddress::v4(10, 0, 0, last) }
}

/// Let target (addr .1) and peer (addr .2) talk for a while; returns frames peer -> target.
fn capture_seeds(medium: Medium) -> Vec<Vec<u8>> {
    let mut a = mk_node(medium, 1, 11);
    let mut p = mk_node(medium, 2, 22);
    let mut seeds: Vec<Vec<u8>> = vec![];
    let mut now = 0i64;
    // scripted activity
    for step in 0..400 {
        let t = Instant::from_millis(now);
        match step {
            1 => {
                let s = p.sockets.get_mut::<tcp::Socket>(p.tcp_client);
                let _ = s.connect(p.iface.context(), (peer_ip(medium, 1), 80), 40001);
                let s = a.sockets.get_mut::<tcp::Socket>(a.tcp_client);
                let _ = s.connect(a.iface.context(), (peer_ip(medium, 2), 80), 40002);
            }
            5 => {
                let s = p.sockets.get_mut::<udp::Socket>(p.udp);
                let _ = s.send_slice(b"hello-udp", (peer_ip(medium, 1), 7));
                let _ = s.send_slice(&vec![0x55u8; if medium == Medium::Ieee802154 { 300 } else { 1800 }], (peer_ip(medium, 1), 7));
                let _ = s.send_slice(b"closed-port", (peer_ip(medium, 1), 9999));
            }
            8 => {
                let s = p.sockets.get_mut::<icmp::Socket>(p.icmp);
                let ident = 0x1234;
                if medium == Medium::Ieee802154 {
                    let repr = Icmpv6Repr::EchoRequest { ident, seq_no: 1, data: b"ping6" };
                    let src = ll_addr(medium, 2);
                    let dst = ll_addr(medium, 1);
                    if let Ok(buf) = s.send(repr.buffer_len(), IpAddress::Ipv6(dst)) {
                        repr.emit(&src, &dst, &mut Icmpv6Packet::new_unchecked(buf), &Default::default());
                    }
                } else {
                    let repr = Icmpv4Repr::EchoRequest { ident, seq_no: 1, data: b"ping4" };
                    if let Ok(buf) = s.send(repr.buffer_len(), peer_ip(medium, 1)) {
                        repr.emit(&mut Icmpv4Packet::new_unchecked(buf), &Default::default());
                    }
                }
            }
            12 => {
                let s = p.sockets.get_mut::<tcp::Socket>(p.tcp_client);
                let _ = s.send_slice(&vec![0x41u8; 700]);
                let s = a.sockets.get_mut::<dns::Socket>(a.dns);
                let _ = s.start_query(a.iface.context(), "example.com", DnsQueryType::A);
            }
            30 => {
                let s = p.sockets.get_mut::<tcp::Socket>(p.tcp_client);
                s.close();
            }
            _ => {}
        }
        // exchange
        a.iface.poll(t, &mut a.dev, &mut a.sockets);
        p.iface.poll(t, &mut p.dev, &mut p.sockets);
        for f in a.dev.drain_tx() {
            p.dev.rx.push_back(f);
        }
        for f in p.dev.drain_tx() {
            if seeds.len() < 400 && !seeds.contains(&f) {
                seeds.push(f.clone());
            }
            a.dev.rx.push_back(f);
        }
        // drain sockets on the target so that buffers do not fill
        let s = a.sockets.get_mut::<tcp::Socket>(a.tcp_listen);
        let mut tmp = [0u8; 512];
        let _ = s.recv_slice(&mut tmp);
        now += if step < 60 { 5 } else { 200 };
    }
    seeds.extend(handmade_seeds(medium));
    seeds.extend(ra_seeds(medium));
    seeds
}

/// Router advertisements (with and without prefix information) framed by a real peer stack through
/// a raw ICMPv6 socket, so that they are also available 6LoWPAN-compressed on IEEE 802.15.4.
fn ra_seeds(medium: Medium) -> Vec<Vec<u8>> {
    let mut out = vec![];
    for (life, pfx) in [(30u64, Some(60u64)), (1800, None), (0, Some(0))] {
        let mut p = mk_node(medium, 3, 33);
        let rw = raw::Socket::new(
            Some(IpVersion::Ipv6),
            Some(IpProtocol::Icmpv6),
            raw::PacketBuffer::new(vec![raw::PacketMetadata::EMPTY; 2], vec![0; 512]),
            raw::PacketBuffer::new(vec![raw::PacketMetadata::EMPTY; 2], vec![0; 512]),
        );
        let h = p.sockets.add(rw);
        let src = ll_addr(medium, 3);
        let dst = Ipv6Address::new(0xff02, 0, 0, 0, 0, 0, 0, 1);
        let ra = Icmpv6Repr::Ndisc(NdiscRepr::RouterAdvert {
            hop_limit: 64,
            flags: NdiscRouterFlags::empty(),
            router_lifetime: Duration::from_secs(life),
            reachable_time: Duration::from_millis(0),
            retrans_time: Duration::from_millis(0),
            lladdr: None,
            mtu: None,
            prefix_info: pfx.map(|v| NdiscPrefixInformation {
                prefix_len: 64,
                flags: NdiscPrefixInfoFlags::ON_LINK | NdiscPrefixInfoFlags::ADDRCONF,
                valid_lifetime: Duration::from_secs(v),
                preferred_lifetime: Duration::from_secs(v / 2),
                prefix: Ipv6Address::new(0x2001, 0xdb8, 7, 0, 0, 0, 0, 0),
            }),
        });
        let ip = Ipv6Repr { src_addr: src, dst_addr: dst, next_header: IpProtocol::Icmpv6, payload_len: ra.buffer_len(), hop_limit: 255 };
        let mut buf = vec![0u8; 40 + ra.buffer_len()];
        ip.emit(&mut Ipv6Packet::new_unchecked(&mut buf[..]));
        ra.emit(&src, &dst, &mut Icmpv6Packet::new_unchecked(&mut buf[40..]), &Default::default());
        if medium == Medium::Ieee802154 {
            // a raw socket cannot transmit on this medium (IpPayload::Raw is `todo!()` in
            // as_sixlowpan_next_header), so frame by hand: 802.15.4 data frame, PAN 0xbeef, broadcast
            // short destination, extended source ..03; IPHC with everything carried inline
            // (TF elided, NH inline, HLIM=255, SAM/DAM = full 128-bit addresses, M=1).
            let mut f: Vec<u8> = vec![0x41, 0xc8, 0x77, 0xef, 0xbe, 0xff, 0xff, 0x03, 0, 0, 0, 0, 0, 0, 0x02];
            f.extend_from_slice(&[0x7b, 0x08, 58]);
            f.extend_from_slice(&buf[8..24]);
            f.extend_from_slice(&buf[24..40]);
            f.extend_from_slice(&buf[40..]);
            out.push(f);
            continue;
        }
        let _ = p.sockets.get_mut::<raw::Socket>(h).send_slice(&buf);
        for k in 0..5 {
            p.iface.poll(Instant::from_millis(k * 10), &mut p.dev, &mut p.sockets);
        }
        for f in p.dev.drain_tx() {
            // keep only frames that carry the advertisement (ICMPv6 type 134 somewhere in the frame)
            if f.windows(2).any(|w| w[0] == 134 && w[1] == 0) {
                out.push(f);
            }
        }
    }
    out
}

fn wrap_l2(medium: Medium, ip_payload: Vec<u8>, v6: bool) -> Option<Vec<u8>> {
    match medium {
        Medium::Ip => Some(ip_payload),
        Medium::Ethernet => {
            let eth = EthernetRepr {
                src_addr: EthernetAddress([0x02, 0, 0, 0, 0, 9]),
                dst_addr: EthernetAddress([0x02, 0, 0, 0, 0, 1]),
                ethertype: if v6 { EthernetProtocol::Ipv6 } else { EthernetProtocol::Ipv4 },
            };
            let mut buf = vec![0u8; 14 + ip_payload.len()];
            let mut f = EthernetFrame::new_unchecked(&mut buf[..]);
            eth.emit(&mut f);
            f.payload_mut().copy_from_slice(&ip_payload);
            Some(buf)
        }
        Medium::Ieee802154 => None, // compressed frames come from the peer capture only
    }
}

fn ipv4_udp(src: Ipv4Address, dst: Ipv4Address, sport: u16, dport: u16, payload: &[u8]) -> Vec<u8> {
    let udp = UdpRepr { src_port: sport, dst_port: dport };
    let ip = Ipv4Repr { src_addr: src, dst_addr: dst, next_header: IpProtocol::Udp, payload_len: udp.header_len() + payload.len(), hop_limit: 64 };
    let mut buf = vec![0u8; ip.buffer_len() + ip.payload_len];
    ip.emit(&mut Ipv4Packet::new_unchecked(&mut buf[..]), &Default::default());
    udp.emit(
        &mut UdpPacket::new_unchecked(&mut buf[20..]),
        &IpAddress::Ipv4(src),
        &IpAddress::Ipv4(dst),
        payload.len(),
        |b| b.copy_from_slice(payload),
        &Default::default(),
    );
    buf
}


/// Transaction id of the DHCPDISCOVER the (deterministic) warmed-up Ethernet target has outstanding when a case
/// starts: the hand-made DHCP seeds use it, so that OFFER/ACK/NAK mutations get past the xid test of the client.
fn target_dhcp_xid() -> u32 {
    warm_target(Medium::Ethernet).seen_dhcp_xid.unwrap_or(0x12345678)
}

/// (id, source port) of the DNS query the warmed-up target has outstanding when a case starts
fn target_dns_query(medium: Medium) -> (u16, u16) {
    warm_target(medium).seen_dns.unwrap_or((0x1234, 49152))
}

/// An IPv6 datagram (next header `nh`, payload `payload`) from node `from` to node `to` as one IEEE 802.15.4 data
/// frame with a LOWPAN_IPHC header (addresses derived from the link-layer addresses, next header in-line).
fn frame154(from: u8, to: u8, nh: IpProtocol, hop: u8, payload: &[u8]) -> Vec<u8> {
    let src_ll = Ieee802154Address::Extended([0x02, 0, 0, 0, 0, 0, 0, from]);
    let dst_ll = Ieee802154Address::Extended([0x02, 0, 0, 0, 0, 0, 0, to]);
    let iphc = SixlowpanIphcRepr {
        src_addr: ll_addr(Medium::Ieee802154, from),
        ll_src_addr: Some(src_ll),
        dst_addr: ll_addr(Medium::Ieee802154, to),
        ll_dst_addr: Some(dst_ll),
        next_header: SixlowpanNextHeader::Uncompressed(nh),
        hop_limit: hop,
        ecn: None,
        dscp: None,
        flow_label: None,
    };
    let mac = Ieee802154Repr {
        frame_type: Ieee802154FrameType::Data,
        security_enabled: false,
        frame_pending: false,
        ack_request: false,
        sequence_number: Some(0x55),
        pan_id_compression: true,
        frame_version: Ieee802154FrameVersion::Ieee802154_2003,
        dst_pan_id: Some(Ieee802154Pan(0xbeef)),
        dst_addr: Some(dst_ll),
        src_pan_id: Some(Ieee802154Pan(0xbeef)),
        src_addr: Some(src_ll),
    };
    let (m, i) = (mac.buffer_len(), iphc.buffer_len());
    let mut buf = vec![0u8; m + i + payload.len()];
    mac.emit(&mut Ieee802154Frame::new_unchecked(&mut buf[..]));
    iphc.emit(&mut SixlowpanIphcPacket::new_unchecked(&mut buf[m..m + i]));
    buf[m + i..].copy_from_slice(payload);
    buf
}

/// ICMPv6 errors about a UDP datagram from port 7 / a TCP segment from port 80 of the target, with complete and
/// truncated quotes, framed for IEEE 802.15.4 (the other media get them from `handmade_seeds`)
fn icmp_error_seeds_154() -> Vec<Vec<u8>> {
    let medium = Medium::Ieee802154;
    let (me6, peer6) = (ll_addr(medium, 1), ll_addr(medium, 2));
    let mut v = vec![];
    let mut udp_q = vec![0u8; 12];
    udp_q[0..2].copy_from_slice(&7u16.to_be_bytes());
    udp_q[2..4].copy_from_slice(&9999u16.to_be_bytes());
    udp_q[4..6].copy_from_slice(&12u16.to_be_bytes());
    udp_q[8..12].copy_from_slice(b"quot");
    UdpPacket::new_unchecked(&mut udp_q[..]).fill_checksum(&IpAddress::Ipv6(me6), &IpAddress::Ipv6(peer6));
    let mut tcp_q = vec![0u8; 20];
    tcp_q[0..2].copy_from_slice(&80u16.to_be_bytes());
    tcp_q[2..4].copy_from_slice(&40001u16.to_be_bytes());
    tcp_q[12] = 0x50;
    tcp_q[13] = 0x10;
    for (proto, q) in [(IpProtocol::Udp, &udp_q), (IpProtocol::Tcp, &tcp_q)] {
        for cut in [q.len(), 0, 1, 4, 7, 8, 19] {
            if cut > q.len() {
                continue;
            }
            let h6 = Ipv6Repr { src_addr: me6, dst_addr: peer6, next_header: proto, payload_len: q.len(), hop_limit: 63 };
            for r6 in [
                Icmpv6Repr::DstUnreachable { reason: Icmpv6DstUnreachable::PortUnreachable, header: h6, data: &q[..cut] },
                Icmpv6Repr::TimeExceeded { reason: Icmpv6TimeExceeded::HopLimitExceeded, header: h6, data: &q[..cut] },
            ] {
                let mut pl = vec![0u8; r6.buffer_len()];
                r6.emit(&peer6, &me6, &mut Icmpv6Packet::new_unchecked(&mut pl[..]), &Default::default());
                v.push(frame154(2, 1, IpProtocol::Icmpv6, 64, &pl));
            }
        }
    }
    v
}

fn handmade_seeds(medium: Medium) -> Vec<Vec<u8>> {
    let mut v = vec![];
    if medium == Medium::Ieee802154 {
        return icmp_error_seeds_154();
    }
    let me4 = Ipv4Address::new(10, 0, 0, 1);
    let srv = Ipv4Address::new(10, 0, 0, 2);
    // DNS response (id will rarely match: the mutator also copies ids around)
    let dns_rsp: Vec<u8> = vec![
        0x12, 0x34, 0x81, 0x80, 0, 1, 0, 2, 0, 0, 0, 0, 7, b'e', b'x', b'a', b'm', b'p', b'l', b'e', 3, b'c', b'o', b'm', 0, 0, 1, 0, 1, 0xc0, 0x0c, 0, 5, 0, 1, 0, 0, 0,
        60, 0, 2, 0xc0, 0x0c, 0xc0, 0x0c, 0, 1, 0, 1, 0, 0, 0, 60, 0, 4, 1, 2, 3, 4,
    ];
    for port in [49152u16, 53, 5353] {
        if let Some(f) = wrap_l2(medium, ipv4_udp(srv, me4, 53, port, &dns_rsp), false) {
            v.push(f);
        }
    }
    if medium != Medium::Ieee802154 {
        // the same response carrying the id and port of the query the target really has outstanding
        let (id, port) = target_dns_query(medium);
        let mut rsp = dns_rsp.clone();
        rsp[0..2].copy_from_slice(&id.to_be_bytes());
        if let Some(f) = wrap_l2(medium, ipv4_udp(srv, me4, 53, port, &rsp), false) {
            v.push(f.clone());
            v.push(f);
        }
    }
    // DHCP offer / ack
    for mt in [DhcpMessageType::Offer, DhcpMessageType::Ack, DhcpMessageType::Nak] {
        let d = DhcpRepr {
            message_type: mt,
            transaction_id: if medium == Medium::Ethernet { target_dhcp_xid() } else { 0x12345678 },
            secs: 0,
            client_hardware_address: EthernetAddress([0x02, 0, 0, 0, 0, 1]),
            client_ip: Ipv4Address::UNSPECIFIED,
            your_ip: Ipv4Address::new(10, 0, 0, 77),
            server_ip: srv,
            router: Some(srv),
            subnet_mask: Some(Ipv4Address::new(255, 255, 255, 0)),
            relay_agent_ip: Ipv4Address::UNSPECIFIED,
            broadcast: false,
            requested_ip: None,
            client_identifier: None,
            server_identifier: Some(srv),
            parameter_request_list: None,
            dns_servers: None,
            max_size: None,
            lease_duration: Some(60),
            renew_duration: None,
            rebind_duration: None,
            additional_options: &[],
        };
        let mut pl = vec![0u8; d.buffer_len()];
        if d.emit(&mut DhcpPacket::new_unchecked(&mut pl[..])).is_ok() {
            if let Some(f) = wrap_l2(medium, ipv4_udp(srv, Ipv4Address::BROADCAST, 67, 68, &pl), false) {
                v.push(f);
            }
        }
    }
    // ICMPv4 / ICMPv6 errors (destination unreachable, time exceeded) about a UDP datagram from port 7 and a TCP
    // segment from port 80 of the target; the quote is complete or cut after 0, 1, 4, 7, 8, 19, 20 octets of the
    // transport header while the quoted IP header still announces the whole datagram (RFC 792 / RFC 4443 2.4(c))
    {
        let me6 = ll_addr(medium, 1);
        let peer6 = ll_addr(medium, 2);
        let udp_q = ipv4_udp(me4, srv, 7, 9999, b"quoted-udp")[20..].to_vec();
        let mut tcp_q = vec![0u8; 24];
        tcp_q[0..2].copy_from_slice(&80u16.to_be_bytes());
        tcp_q[2..4].copy_from_slice(&40001u16.to_be_bytes());
        tcp_q[12] = 0x50;
        tcp_q[13] = 0x10;
        for (proto, q) in [(IpProtocol::Udp, &udp_q), (IpProtocol::Tcp, &tcp_q)] {
            for cut in [q.len(), 0, 1, 4, 7, 8, 19, 20] {
                if cut > q.len() {
                    continue;
                }
                let h4 = Ipv4Repr { src_addr: me4, dst_addr: srv, next_header: proto, payload_len: q.len(), hop_limit: 63 };
                for r4 in [
                    Icmpv4Repr::DstUnreachable { reason: Icmpv4DstUnreachable::PortUnreachable, header: h4, data: &q[..cut] },
                    Icmpv4Repr::TimeExceeded { reason: Icmpv4TimeExceeded::TtlExpired, header: h4, data: &q[..cut] },
                ] {
                    let ip = Ipv4Repr { src_addr: srv, dst_addr: me4, next_header: IpProtocol::Icmp, payload_len: r4.buffer_len(), hop_limit: 64 };
                    let mut buf = vec![0u8; 20 + r4.buffer_len()];
                    ip.emit(&mut Ipv4Packet::new_unchecked(&mut buf[..]), &Default::default());
                    r4.emit(&mut Icmpv4Packet::new_unchecked(&mut buf[20..]), &Default::default());
                    if let Some(f) = wrap_l2(medium, buf, false) {
                        v.push(f);
                    }
                }
                let h6 = Ipv6Repr { src_addr: me6, dst_addr: peer6, next_header: proto, payload_len: q.len(), hop_limit: 63 };
                for r6 in [
                    Icmpv6Repr::DstUnreachable { reason: Icmpv6DstUnreachable::PortUnreachable, header: h6, data: &q[..cut] },
                    Icmpv6Repr::TimeExceeded { reason: Icmpv6TimeExceeded::HopLimitExceeded, header: h6, data: &q[..cut] },
                ] {
                    let ip = Ipv6Repr { src_addr: peer6, dst_addr: me6, next_header: IpProtocol::Icmpv6, payload_len: r6.buffer_len(), hop_limit: 64 };
                    let mut buf = vec![0u8; 40 + r6.buffer_len()];
                    ip.emit(&mut Ipv6Packet::new_unchecked(&mut buf[..]));
                    r6.emit(&peer6, &me6, &mut Icmpv6Packet::new_unchecked(&mut buf[40..]), &Default::default());
                    if let Some(f) = wrap_l2(medium, buf, true) {
                        v.push(f);
                    }
                }
            }
        }
    }
    // IGMP general query, raw protocol 253, IPv4 with options (ihl > 5)
    {
        let mut b = vec![0u8; 28];
        b[0] = 0x46;
        b[2..4].copy_from_slice(&28u16.to_be_bytes());
        b[8] = 1;
        b[9] = 2;
        b[12..16].copy_from_slice(&srv.octets());
        b[16..20].copy_from_slice(&[224, 0, 0, 1]);
        b[20..24].copy_from_slice(&[0x94, 4, 0, 0]);
        b[24] = 0x11;
        b[25] = 100;
        let mut p = Ipv4Packet::new_unchecked(&mut b[..]);
        p.fill_checksum();
        if let Some(f) = wrap_l2(medium, b, false) {
            v.push(f);
        }
    }
    // well-formed IGMP: general queries (v2 with several response times, v1), group-specific queries for
    // the groups the target joined (and one it did not), a report and a leave of another host
    {
        let all = Ipv4Address::new(224, 0, 0, 1);
        let mut msgs: Vec<(IgmpRepr, Ipv4Address)> = vec![];
        for mrt in [1u64, 10, 100] {
            msgs.push((
                IgmpRepr::MembershipQuery { max_resp_time: Duration::from_millis(mrt * 100), group_addr: Ipv4Address::UNSPECIFIED, version: IgmpVersion::Version2 },
                all,
            ));
        }
        msgs.push((IgmpRepr::MembershipQuery { max_resp_time: Duration::from_millis(0), group_addr: Ipv4Address::UNSPECIFIED, version: IgmpVersion::Version1 }, all));
        for g in [GROUP4_A, GROUP4_B, Ipv4Address::new(239, 9, 9, 9)] {
            msgs.push((IgmpRepr::MembershipQuery { max_resp_time: Duration::from_millis(1000), group_addr: g, version: IgmpVersion::Version2 }, g));
            msgs.push((IgmpRepr::MembershipQuery { max_resp_time: Duration::from_millis(0), group_addr: g, version: IgmpVersion::Version1 }, me4));
        }
        msgs.push((IgmpRepr::MembershipReport { group_addr: GROUP4_A, version: IgmpVersion::Version2 }, GROUP4_A));
        msgs.push((IgmpRepr::LeaveGroup { group_addr: GROUP4_A }, Ipv4Address::new(224, 0, 0, 2)));
        for (m, dst) in msgs {
            let ip = Ipv4Repr { src_addr: srv, dst_addr: dst, next_header: IpProtocol::Igmp, payload_len: m.buffer_len(), hop_limit: 1 };
            let mut buf = vec![0u8; 20 + m.buffer_len()];
            ip.emit(&mut Ipv4Packet::new_unchecked(&mut buf[..]), &Default::default());
            m.emit(&mut IgmpPacket::new_unchecked(&mut buf[20..]));
            if let Some(f) = wrap_l2(medium, buf, false) {
                v.push(f);
            }
        }
    }
    // MLD group-specific queries (joined group, foreign group), addressed to the group
    {
        let src = Ipv6Address::new(0xfe80, 0, 0, 0, 0, 0, 0, 2);
        for (g, code) in [(GROUP6, 0u16), (GROUP6, 1000), (Ipv6Address::new(0xff02, 0, 0, 0, 0, 0, 0, 0x99), 10)] {
            let mld = Icmpv6Repr::Mld(MldRepr::Query { max_resp_code: code, mcast_addr: g, s_flag: false, qrv: 2, qqic: 125, num_srcs: 0, data: &[] });
            let ip = Ipv6Repr { src_addr: src, dst_addr: g, next_header: IpProtocol::Icmpv6, payload_len: mld.buffer_len(), hop_limit: 1 };
            let mut buf = vec![0u8; 40 + mld.buffer_len()];
            ip.emit(&mut Ipv6Packet::new_unchecked(&mut buf[..]));
            mld.emit(&src, &g, &mut Icmpv6Packet::new_unchecked(&mut buf[40..]), &Default::default());
            if let Some(f) = wrap_l2(medium, buf, true) {
                v.push(f);
            }
        }
    }
    // IPv6: hop-by-hop + routing + fragment headers in front of UDP; MLD query; RA with options
    {
        let src = Ipv6Address::new(0xfe80, 0, 0, 0, 0, 0, 0, 2);
        let dst = ll_addr(medium, 1);
        let mut pl: Vec<u8> = vec![];
        pl.extend_from_slice(&[43, 0, 1, 4, 0, 0, 0, 0]); // hbh: next=routing, PadN
        pl.extend_from_slice(&[44, 0, 0, 0, 0, 0, 0, 0]); // routing type 0, segments left 0
        pl.extend_from_slice(&[17, 0, 0, 0, 0, 0, 0, 1]); // fragment hdr, offset 0, no more
        pl.extend_from_slice(&[0, 53, 0, 7, 0, 12, 0, 0, 1, 2, 3, 4]);
        let ip = Ipv6Repr { src_addr: src, dst_addr: dst, next_header: IpProtocol::HopByHop, payload_len: pl.len(), hop_limit: 64 };
        let mut buf = vec![0u8; 40 + pl.len()];
        ip.emit(&mut Ipv6Packet::new_unchecked(&mut buf[..]));
        buf[40..].copy_from_slice(&pl);
        if let Some(f) = wrap_l2(medium, buf, true) {
            v.push(f);
        }
        // MLD general query
        let mld = Icmpv6Repr::Mld(MldRepr::Query {
            max_resp_code: 1000,
            mcast_addr: Ipv6Address::UNSPECIFIED,
            s_flag: false,
            qrv: 2,
            qqic: 125,
            num_srcs: 0,
            data: &[],
        });
        let alln = Ipv6Address::new(0xff02, 0, 0, 0, 0, 0, 0, 1);
        let ip = Ipv6Repr { src_addr: src, dst_addr: alln, next_header: IpProtocol::Icmpv6, payload_len: mld.buffer_len(), hop_limit: 1 };
        let mut buf = vec![0u8; 40 + mld.buffer_len()];
        ip.emit(&mut Ipv6Packet::new_unchecked(&mut buf[..]));
        mld.emit(&src, &alln, &mut Icmpv6Packet::new_unchecked(&mut buf[40..]), &Default::default());
        if let Some(f) = wrap_l2(medium, buf, true) {
            v.push(f);
        }
        // neighbor solicitation / advertisement / router solicitation / redirect with link-layer
        // address options (on every medium, also where the medium does not use NDISC)
        let lladdr = RawHardwareAddress::from_bytes(&[2, 0, 0, 0, 0, 2]);
        let nd: Vec<(NdiscRepr, Ipv6Address)> = vec![
            (NdiscRepr::NeighborSolicit { target_addr: dst, lladdr: Some(lladdr) }, dst),
            (NdiscRepr::NeighborSolicit { target_addr: dst, lladdr: None }, Ipv6Address::new(0xff02, 0, 0, 0, 0, 1, 0xff00, 1)),
            (NdiscRepr::NeighborAdvert { flags: NdiscNeighborFlags::SOLICITED | NdiscNeighborFlags::OVERRIDE, target_addr: src, lladdr: Some(lladdr) }, dst),
            (NdiscRepr::NeighborAdvert { flags: NdiscNeighborFlags::empty(), target_addr: src, lladdr: None }, alln),
            (NdiscRepr::RouterSolicit { lladdr: Some(lladdr) }, Ipv6Address::new(0xff02, 0, 0, 0, 0, 0, 0, 2)),
        ];
        for (r, d) in nd {
            let ic = Icmpv6Repr::Ndisc(r);
            let ip = Ipv6Repr { src_addr: src, dst_addr: d, next_header: IpProtocol::Icmpv6, payload_len: ic.buffer_len(), hop_limit: 255 };
            let mut buf = vec![0u8; 40 + ic.buffer_len()];
            ip.emit(&mut Ipv6Packet::new_unchecked(&mut buf[..]));
            ic.emit(&src, &d, &mut Icmpv6Packet::new_unchecked(&mut buf[40..]), &Default::default());
            if let Some(f) = wrap_l2(medium, buf, true) {
                v.push(f);
            }
        }
        // router advertisement with prefix + mtu + lladdr
        let ra = Icmpv6Repr::Ndisc(NdiscRepr::RouterAdvert {
            hop_limit: 64,
            flags: NdiscRouterFlags::empty(),
            router_lifetime: Duration::from_secs(30),
            reachable_time: Duration::from_millis(0),
            retrans_time: Duration::from_millis(0),
            lladdr: Some(RawHardwareAddress::from_bytes(&[2, 0, 0, 0, 0, 2])),
            mtu: Some(1400),
            prefix_info: Some(NdiscPrefixInformation {
                prefix_len: 64,
                flags: NdiscPrefixInfoFlags::ON_LINK | NdiscPrefixInfoFlags::ADDRCONF,
                valid_lifetime: Duration::from_secs(60),
                preferred_lifetime: Duration::from_secs(30),
                prefix: Ipv6Address::new(0x2001, 0xdb8, 1, 0, 0, 0, 0, 0),
            }),
        });
        let ip = Ipv6Repr { src_addr: src, dst_addr: alln, next_header: IpProtocol::Icmpv6, payload_len: ra.buffer_len(), hop_limit: 255 };
        let mut buf = vec![0u8; 40 + ra.buffer_len()];
        ip.emit(&mut Ipv6Packet::new_unchecked(&mut buf[..]));
        ra.emit(&src, &alln, &mut Icmpv6Packet::new_unchecked(&mut buf[40..]), &Default::default());
        if let Some(f) = wrap_l2(medium, buf, true) {
            v.push(f);
        }
    }
    v
}

/// the trailing, well-formed probe: echo request from a fresh neighbor (last = 9)
fn echo_probe(medium: Medium, seqno: u16) -> Vec<u8> {
    match medium {
        Medium::Ip | Medium::Ethernet => {
            let src = Ipv4Address::new(10, 0, 0, 9);
            let dst = Ipv4Address::new(10, 0, 0, 1);
            let ic = Icmpv4Repr::EchoRequest { ident: 0x7777, seq_no: seqno, data: b"still-alive?" };
            let ip = Ipv4Repr { src_addr: src, dst_addr: dst, next_header: IpProtocol::Icmp, payload_len: ic.buffer_len(), hop_limit: 64 };
            let mut buf = vec![0u8; 20 + ic.buffer_len()];
            ip.emit(&mut Ipv4Packet::new_unchecked(&mut buf[..]), &Default::default());
            ic.emit(&mut Icmpv4Packet::new_unchecked(&mut buf[20..]), &Default::default());
            wrap_l2(medium, buf, false).unwrap()
        }
        Medium::Ieee802154 => {
            // produced by a real stack: a fresh peer (address 9) pings the target
            let mut p = mk_node(medium, 9, 99);
            let s = p.sockets.get_mut::<icmp::Socket>(p.icmp);
            let repr = Icmpv6Repr::EchoRequest { ident: 0x7777, seq_no: seqno, data: b"still-alive?" };
            let src = ll_addr(medium, 9);
            let dst = ll_addr(medium, 1);
            let buf = s.send(repr.buffer_len(), IpAddress::Ipv6(dst)).unwrap();
            repr.emit(&src, &dst, &mut Icmpv6Packet::new_unchecked(buf), &Default::default());
            // teach the peer the target's link address through a neighbor advertisement is not
            // needed: link-local addresses derived from the extended address resolve directly? No:
            // NDISC is used; answer its solicitation by hand.
            let mut out = vec![];
            let mut now = 0;
            for _ in 0..20 {
                p.iface.poll(Instant::from_millis(now), &mut p.dev, &mut p.sockets);
                out.extend(p.dev.drain_tx());
                now += 100;
            }
            // return the last frame that is not a neighbor solicitation if any, else the first
            out.into_iter().last().unwrap_or_default()
        }
    }
}

fn is_echo_reply(medium: Medium, frame: &[u8]) -> bool {
    // a reply carries the probe payload
    let needle = b"still-alive?";
    let has = frame.windows(needle.len()).any(|w| w == needle);
    match medium {
        Medium::Ieee802154 => has,
        _ => has,
    }
}

fn mutate(rng: &mut Rng, seeds: &[Vec<u8>], mtu: usize) -> Vec<u8> {
    if rng.chance(1, 12) {
        let n = rng.below((mtu + 1) as u64) as usize;
        return rng.bytes(n);
    }
    let mut f = rng.pick(seeds).clone();
    let nmut = match rng.below(10) {
        0 | 1 => 0,
        2..=6 => 1,
        7 | 8 => 2,
        _ => 1 + rng.below(8) as usize,
    };
    for _ in 0..nmut {
        if f.is_empty() {
            break;
        }
        let i = if rng.chance(3, 4) { rng.below(f.len().min(80) as u64) as usize } else { rng.below(f.len() as u64) as usize };
        match rng.below(11) {
            9 | 10 => {
                // structure-aware: find a 16-bit big-endian field that looks like a length field (its value
                // plus its own offset lands near the end of the frame: IPv4 total length, IPv6 payload length,
                // UDP length, ...) and set it to a boundary value around the header sizes, or nudge it
                let n = f.len();
                let cands: Vec<usize> = (0..n.saturating_sub(1).min(100))
                    .filter(|&j| {
                        let v = u16::from_be_bytes([f[j], f[j + 1]]) as usize;
                        v + j + 64 >= n && v + j <= n + 8
                    })
                    .collect();
                if !cands.is_empty() {
                    let j = *rng.pick(&cands);
                    let v = u16::from_be_bytes([f[j], f[j + 1]]);
                    let nv = match rng.below(3) {
                        0 => *rng.pick(&[0u16, 1, 2, 3, 4, 7, 8, 9, 19, 20, 21, 22, 23, 24, 27, 28, 29, 39, 40, 41, 48, 60, 61]),
                        1 => v.wrapping_sub(rng.range(1, 9) as u16),
                        _ => v.wrapping_add(rng.range(1, 9) as u16),
                    };
                    f[j..j + 2].copy_from_slice(&nv.to_be_bytes());
                }
            }
            0 => f[i] ^= 1 << rng.below(8),
            1 => f[i] = *rng.pick(&[0u8, 1, 0x7f, 0x80, 0xfe, 0xff, 0x0f, 0xf0]),
            2 => f[i] = rng.next() as u8,
            3 => f.truncate(i),
            4 => {
                let extra = rng.below(40) as usize;
                let b = rng.bytes(extra);
                f.extend(b);
            }
            5 => {
                // perturb a 16-bit big-endian field
                if i + 1 < f.len() {
                    let v = u16::from_be_bytes([f[i], f[i + 1]]);
                    let nv = match rng.below(5) {
                        0 => v.wrapping_add(1),
                        1 => v.wrapping_sub(1),
                        2 => 0,
                        3 => 0xffff,
                        _ => f.len() as u16,
                    };
                    f[i..i + 2].copy_from_slice(&nv.to_be_bytes());
                }
            }
            6 => {
                // splice with another seed
                let o = rng.pick(seeds);
                if !o.is_empty() {
                    let j = rng.below(o.len() as u64) as usize;
                    f.truncate(i);
                    f.extend_from_slice(&o[j..]);
                }
            }
            7 => {
                f.remove(i);
            }
            _ => {
                f.insert(i, rng.next() as u8);
            }
        }
    }
    f.truncate(mtu);
    f
}

fn medium_of(s: &str) -> Medium {
    match s {
        "ip" => Medium::Ip,
        "eth" => Medium::Ethernet,
        _ => Medium::Ieee802154,
    }
}

fn medium_name(m: Medium) -> &'static str {
    match m {
        Medium::Ip => "ip",
        Medium::Ethernet => "eth",
        Medium::Ieee802154 => "154",
    }
}

const GROUP4_A: Ipv4Address = Ipv4Address::new(239, 1, 2, 3);
const GROUP4_B: Ipv4Address = Ipv4Address::new(224, 0, 0, 251);
const GROUP6: Ipv6Address = Ipv6Address::new(0xff02, 0, 0, 0, 0, 0, 0, 0xfb);

/// multicast group number k of the `l` / `j` ops (IPv4 groups do not exist on IEEE 802.15.4)
fn group(medium: Medium, k: usize) -> IpAddress {
    match (medium, k % 3) {
        (Medium::Ieee802154, _) | (_, 2) => IpAddress::Ipv6(GROUP6),
        (_, 0) => IpAddress::Ipv4(GROUP4_A),
        _ => IpAddress::Ipv4(GROUP4_B),
    }
}

/// bring the target into a state with an established and a connecting TCP socket etc.
fn warm_target(medium: Medium) -> Node {
    warm_target_ck(medium, false)
}

fn warm_target_ck(medium: Medium, ck_tx_only: bool) -> Node {
    let mut a = mk_node_ck(medium, 1, 11, ck_tx_only);
    for k in 0..3 {
        let _ = a.iface.join_multicast_group(group(medium, k));
    }
    let mut p = mk_node(medium, 2, 22);
    let mut now = 0i64;
    for step in 0..40 {
        let t = Instant::from_millis(now);
        if step == 1 {
            let s = p.sockets.get_mut::<tcp::Socket>(p.tcp_client);
            let _ = s.connect(p.iface.context(), (peer_ip(medium, 1), 80), 40001);
            // the target's client connects to a port nobody answers on a third host: stays SYN-SENT
            let s = a.sockets.get_mut::<tcp::Socket>(a.tcp_client);
            let _ = s.connect(a.iface.context(), (peer_ip(medium, 2), 81), 40002);
            let s = a.sockets.get_mut::<dns::Socket>(a.dns);
            let _ = s.start_query(a.iface.context(), "example.com", DnsQueryType::A);
        }
        a.iface.poll(t, &mut a.dev, &mut a.sockets);
        p.iface.poll(t, &mut p.dev, &mut p.sockets);
        for f in a.dev.drain_tx() {
            // remember the identifiers a reply must carry (IPv4/UDP without IP options, behind the link header)
            let l2 = match medium { Medium::Ethernet => 14, _ => 0 };
            if medium != Medium::Ieee802154 && f.len() > l2 + 28 + 4 && f[l2] == 0x45 && f[l2 + 9] == 17 {
                let dport = u16::from_be_bytes([f[l2 + 22], f[l2 + 23]]);
                let sport = u16::from_be_bytes([f[l2 + 20], f[l2 + 21]]);
                if dport == 53 {
                    a.seen_dns = Some((u16::from_be_bytes([f[l2 + 28], f[l2 + 29]]), sport));
                } else if dport == 67 && f.len() > l2 + 28 + 8 {
                    a.seen_dhcp_xid = Some(u32::from_be_bytes([f[l2 + 32], f[l2 + 33], f[l2 + 34], f[l2 + 35]]));
                }
            }
            p.dev.rx.push_back(f);
        }
        for f in p.dev.drain_tx() {
            // drop the peer's RST for port 81 so that the client stays in SYN-SENT
            a.dev.rx.push_back(f);
        }
        now += 5;
    }
    a
}

/// returns None if ok, Some((class, detail)) otherwise
fn run_case(c: &Case) -> Option<(String, String)> {
    let medium = medium_of(c.get("medium").unwrap_or("ip"));
    enum Op {
        Frame(Vec<u8>),
        Leave(usize),
        Join(usize),
        Budget(usize),
    }
    let frames: Vec<(i64, Op)> = c
        .ops
        .iter()
        .map(|o| {
            let t: Vec<&str> = o.split_whitespace().collect();
            let dt: i64 = t[1].parse().unwrap();
            let arg = t.get(2).copied().unwrap_or("");
            (
                dt,
                match t[0] {
                    "l" => Op::Leave(arg.parse().unwrap_or(0)),
                    "j" => Op::Join(arg.parse().unwrap_or(0)),
                    "b" => Op::Budget(arg.parse().unwrap_or(255)),
                    _ => Op::Frame(unhex(arg)),
                },
            )
        })
        .collect();
    let cid = c.id.clone();
    let ck_tx_only = c.get("ck") == Some("tx");
    let dhcp_buf: Option<usize> = c.get("db").and_then(|v| v.parse().ok());
    let (txch, rxch) = std::sync::mpsc::channel();
    let th = std::thread::Builder::new().stack_size(16 << 20).spawn(move || {
        let r = std::panic::catch_unwind(std::panic::AssertUnwindSafe(|| {
            let mut a = warm_target_ck(medium, ck_tx_only);
            if let (Some(n), Some(h)) = (dhcp_buf, a.dhcp) {
                // the optional copy of the last DHCP message, into a buffer smaller or larger than the message
                let buf: &'static mut [u8] = Box::leak(vec![0u8; n].into_boxed_slice());
                a.sockets.get_mut::<dhcpv4::Socket>(h).set_receive_packet_buffer(buf);
            }
            let mut now: i64 = 1000;
            for (k, (dt, op)) in frames.iter().enumerate() {
                now += dt;
                match op {
                    Op::Frame(f) => a.dev.rx.push_back(f.clone()),
                    Op::Leave(g) => {
                        let _ = a.iface.leave_multicast_group(group(medium, *g));
                    }
                    Op::Join(g) => {
                        let _ = a.iface.join_multicast_group(group(medium, *g));
                    }
                    Op::Budget(n) => a.dev.tx_budget = if *n >= 255 { None } else { Some(*n) },
                }
                a.iface.poll(Instant::from_millis(now), &mut a.dev, &mut a.sockets);
                if let Some(h) = a.dhcp {
                    let _ = a.sockets.get_mut::<dhcpv4::Socket>(h).poll();
                }
                a.dev.drain_tx();
                let _ = k;
                // drain receive buffers like an application would
                let mut tmp = [0u8; 256];
                let _ = a.sockets.get_mut::<tcp::Socket>(a.tcp_listen).recv_slice(&mut tmp);
                let _ = a.sockets.get_mut::<udp::Socket>(a.udp).recv_slice(&mut tmp);
                let _ = a.sockets.get_mut::<icmp::Socket>(a.icmp).recv_slice(&mut tmp);
            }
            // trailing probe: a fresh, well-behaved peer (address 9, a real stack) pings the target;
            // frames are exchanged both ways for up to 5 virtual seconds (the device accepts frames again)
            // and first works off what queued up behind the back-pressure: a router advertisement processed in the
            // same poll as the probe's ARP exchange would flush the neighbour cache again (update_ip_addrs) and
            // the single echo request would go unanswered for a reason that is not a wedge)
            a.dev.tx_budget = None;
            for _ in 0..8 {
                if a.dev.rx.is_empty() {
                    break;
                }
                now += 10;
                a.iface.poll(Instant::from_millis(now), &mut a.dev, &mut a.sockets);
                a.dev.drain_tx();
            }
            let mut p = mk_node(a.medium, 9, 99);
            {
                let s = p.sockets.get_mut::<icmp::Socket>(p.icmp);
                if a.medium == Medium::Ieee802154 {
                    let repr = Icmpv6Repr::EchoRequest { ident: 0x1234, seq_no: 42, data: b"still-alive?" };
                    let src = ll_addr(a.medium, 9);
                    let dst = ll_addr(a.medium, 1);
                    let buf = s.send(repr.buffer_len(), IpAddress::Ipv6(dst)).unwrap();
                    repr.emit(&src, &dst, &mut Icmpv6Packet::new_unchecked(buf), &Default::default());
                } else {
                    let repr = Icmpv4Repr::EchoRequest { ident: 0x1234, seq_no: 42, data: b"still-alive?" };
                    let buf = s.send(repr.buffer_len(), IpAddress::v4(10, 0, 0, 1)).unwrap();
                    repr.emit(&mut Icmpv4Packet::new_unchecked(buf), &Default::default());
                }
            }
            let mut answered = false;
            let start = now;
            while now - start <= 5000 {
                let t = Instant::from_millis(now);
                p.iface.poll(t, &mut p.dev, &mut p.sockets);
                for f in p.dev.drain_tx() {
                    a.dev.rx.push_back(f);
                }
                a.iface.poll(t, &mut a.dev, &mut a.sockets);
                for f in a.dev.drain_tx() {
                    p.dev.rx.push_back(f);
                }
                p.iface.poll(t, &mut p.dev, &mut p.sockets);
                for f in p.dev.drain_tx() {
                    a.dev.rx.push_back(f);
                }
                let s = p.sockets.get_mut::<icmp::Socket>(p.icmp);
                let mut tmp = [0u8; 256];
                while let Ok((n, _)) = s.recv_slice(&mut tmp) {
                    if tmp[..n].windows(12).any(|w| w == b"still-alive?") {
                        answered = true;
                    }
                }
                if answered {
                    break;
                }
                now += 50;
            }
            if !answered {
                return Some(("c03-no-echo-reply".to_string(), "echo request to an own address unanswered for 5 s after the sequence".to_string()));
            }
            None
        }));
        let _ = txch.send(match r {
            Ok(x) => x,
            Err(_) => Some(("c03-poll-panicked".to_string(), LAST_PANIC.lock().map(|s| s.clone()).unwrap_or_default())),
        });
    });
    let _ = th;
    match rxch.recv_timeout(std::time::Duration::from_secs(20)) {
        Ok(r) => r,
        Err(_) => Some(("c03-poll-hang".to_string(), format!("case {} did not finish within 20 s wall time", cid))),
    }
}

fn main() {
    std::panic::set_hook(Box::new(|info| {
        let loc = info.location().map(|l| format!("{}:{}", l.file(), l.line())).unwrap_or_default();
        let msg = info.payload().downcast_ref::<&str>().map(|s| s.to_string()).or_else(|| info.payload().downcast_ref::<String>().cloned()).unwrap_or_default();
        if std::env::var("FUZZ_VERBOSE").is_ok() { eprintln!("panic: {} at {}", msg, loc); }
        if let Ok(mut g) = LAST_PANIC.lock() {
            *g = format!("{} at {}", msg, loc);
        }
    }));
    let (sub, seed, n, tier) = args();
    let stdout = std::io::stdout();
    let mut out = std::io::BufWriter::new(stdout.lock());
    match sub.as_str() {
        "seeds" => {
            for m in [Medium::Ip, Medium::Ethernet, Medium::Ieee802154] {
                let s = capture_seeds(m);
                writeln!(out, "{}: {} seeds", medium_name(m), s.len()).ok();
                for f in s.iter().take(6) {
                    writeln!(out, "  {}", hex(&f[..f.len().min(64)])).ok();
                }
            }
        }
        "ra-check" => {
            // sanity of the hand-framed seeds: does a router advertisement reach SLAAC on each medium?
            for m in [Medium::Ip, Medium::Ethernet, Medium::Ieee802154] {
                let mut a = warm_target(m);
                for f in ra_seeds(m) {
                    a.dev.rx.push_back(f);
                }
                for k in 0..4 {
                    a.iface.poll(Instant::from_millis(2000 + k * 10), &mut a.dev, &mut a.sockets);
                }
                writeln!(out, "{}: addrs={:?} tx={}", medium_name(m), a.iface.ip_addrs(), a.dev.tx.len()).ok();
                if m == Medium::Ieee802154 {
                    for f in ra_seeds(m) {
                        let fr = Ieee802154Frame::new_checked(&f[..]);
                        writeln!(out, "  frame ok={} {}", fr.is_ok(), hex(&f[..30])).ok();
                        if let Ok(fr) = fr {
                            writeln!(out, "  repr={:?}", Ieee802154Repr::parse(&fr)).ok();
                            if let Some(pl) = fr.payload() {
                                let ip = SixlowpanIphcPacket::new_checked(pl);
                                writeln!(out, "  iphc ok={}", ip.is_ok()).ok();
                                if let Ok(ip) = ip {
                                    writeln!(out, "  iphc repr={:?}", SixlowpanIphcRepr::parse(&ip, None, None, &[])).ok();
                                }
                            }
                        }
                        break;
                    }
                }
            }
        }
        "oracle-dhcpzero" => {
            // Known finding dhcp-zero-timeout-spins-poll (D29): one DHCPv4 socket whose retry configuration has
            // discover_timeout = 0 (only shard 0 runs it; `zero=0` is the control with the default configuration).
            // Interface::poll runs on a second thread; if it has not returned after 0.8 s the case is reported
            // (the control run gets 20 s: it returns at once, the margin is for a loaded machine).
            let run = |zero: bool| -> Option<usize> {
                let (txc, rxc) = std::sync::mpsc::channel();
                std::thread::spawn(move || {
                    let mut dev = QDev::new(Medium::Ethernet, 1514);
                    let cfg = Config::new(hw(Medium::Ethernet, 1));
                    let mut iface = Interface::new(cfg, &mut dev, Instant::ZERO);
                    let mut sockets = SocketSet::new(Vec::new());
                    let mut d = dhcpv4::Socket::new();
                    if zero {
                        let mut rc = dhcpv4::RetryConfig::default();
                        rc.discover_timeout = Duration::ZERO;
                        d.set_retry_config(rc);
                    }
                    sockets.add(d);
                    iface.poll(Instant::from_millis(1000), &mut dev, &mut sockets);
                    let _ = txc.send(dev.drain_tx().len());
                });
                rxc.recv_timeout(std::time::Duration::from_millis(if zero { 800 } else { 20_000 })).ok()
            };
            let mut nf = 0;
            if seed % 1000 == 0 {
                match run(false) {
                    Some(1) => {}
                    other => {
                        writeln!(out, "FAIL c03-dhcp-default-config-control :: default retry configuration: poll -> {:?} (expected one DISCOVER)", other).ok();
                        nf += 1;
                    }
                }
                if run(true).is_none() {
                    writeln!(out, "FAILCASE\ncase dhcpzero medium=eth discover_timeout=0\npoll 1000\nend").ok();
                    writeln!(out, "FAIL c03-poll-hang-dhcp-zero-retry-timeout :: one DHCPv4 socket with RetryConfig.discover_timeout = 0, no received frame: Interface::poll(1 s) has not returned after 0.8 s").ok();
                    nf += 1;
                }
            }
            writeln!(out, "STATS {{\"cases\":{},\"failing_cases\":{}}}", if seed % 1000 == 0 { 2 } else { 0 }, nf).ok();
            out.flush().ok();
            std::process::exit(0); // the spinning thread never ends
        }
        "oracle" | "oracle-replay" => {
            let mut rng = Rng::new(seed ^ 0xF022);
            let mut fails: Vec<String> = vec![];
            let mut nframes = 0u64;
            let mut per_medium = [0u64; 3];
            let cases: Vec<Case> = if sub == "oracle-replay" {
                stdin_cases()
            } else {
                let mut seeds = [capture_seeds(Medium::Ip), capture_seeds(Medium::Ethernet), capture_seeds(Medium::Ieee802154)];
                // cross-medium sharing: every IP packet seen on Ethernet (NDISC, MLD, ...) is also a
                // raw-IP seed and vice versa, whether or not that medium normally carries it
                let from_eth: Vec<Vec<u8>> = seeds[1]
                    .iter()
                    .filter(|f| f.len() > 14 && (f[12..14] == [0x08, 0x00] || f[12..14] == [0x86, 0xdd]))
                    .map(|f| f[14..].to_vec())
                    .collect();
                let from_ip: Vec<Vec<u8>> = seeds[0]
                    .iter()
                    .filter(|f| !f.is_empty())
                    .filter_map(|f| wrap_l2(Medium::Ethernet, f.clone(), f[0] >> 4 == 6))
                    .collect();
                for f in from_eth {
                    if !seeds[0].contains(&f) {
                        seeds[0].push(f);
                    }
                }
                for f in from_ip {
                    if !seeds[1].contains(&f) {
                        seeds[1].push(f);
                    }
                }
                (0..n)
                    .map(|i| {
                        let mi = (i % 3) as usize;
                        let m = [Medium::Ip, Medium::Ethernet, Medium::Ieee802154][mi];
                        let len = if tier == "thorough" { rng.range(1, 64) } else { rng.range(1, 24) };
                        let ops = (0..len)
                            .map(|_| {
                                let dt = *rng.pick(&[0i64, 0, 1, 10, 200, 1000, 3000, 61000]);
                                match rng.below(16) {
                                    0 => format!("l {} {}", dt, rng.below(3)),
                                    1 => format!("j {} {}", dt, rng.below(3)),
                                    2 => format!("b {} {}", dt, *rng.pick(&[0u32, 0, 1, 1, 2, 255, 255])),
                                    _ => format!("f {} {}", dt, hex(&mutate(&mut rng, &seeds[mi], mtu_of(m)))),
                                }
                            })
                            .collect();
                        let mut cfg: Vec<(String, String)> = vec![("medium".into(), medium_name(m).into())];
                        // every third case of a medium: receive checksums are not verified by the stack
                        if (i / 3) % 3 == 2 {
                            cfg.push(("ck".into(), "tx".into()));
                        }
                        if m == Medium::Ethernet && (i / 3) % 2 == 1 {
                            cfg.push(("db".into(), rng.pick(&[0usize, 64, 240, 300, 600]).to_string()));
                        }
                        Case { id: format!("z{}-{}", seed, i), cfg, ops }
                    })
                    .collect()
            };
            for c in &cases {
                nframes += c.ops.len() as u64;
                per_medium[match c.get("medium") { Some("ip") => 0, Some("eth") => 1, _ => 2 }] += 1;
                if let Some((class, detail)) = run_case(c) {
                    if sub == "oracle" {
                        writeln!(out, "FAILCASE").ok();
                        c.write(&mut out);
                    }
                    fails.push(format!("{} :: case {} medium={} {}", class, c.id, c.get("medium").unwrap_or("?"), detail));
                    if class == "c03-poll-hang" || fails.len() > 8 {
                        break;
                    }
                }
            }
            for f in &fails {
                writeln!(out, "FAIL {}", f).ok();
            }
            writeln!(
                out,
                "STATS {{\"cases\":{},\"frames\":{},\"ip\":{},\"eth\":{},\"ieee802154\":{}}}",
                cases.len(),
                nframes,
                per_medium[0],
                per_medium[1],
                per_medium[2]
            )
            .ok();
            out.flush().ok();
            if fails.iter().any(|f| f.starts_with("c03-poll-hang")) {
                std::process::exit(0); // a hung thread cannot be joined
            }
        }
        x => panic!("unknown subcommand {}", x),
    }
}
