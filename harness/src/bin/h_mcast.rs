//! Stream `mcast` and oracles for the multicast host state machine
//! (src/iface/interface/multicast.rs; properties C10, C11, C03; model coq/Model/Multicast.v).
//!
//! Case header: `case <id> medium=eth|ip|154 mtu=<device mtu> seed=<hex u64> probe=<addr>,<addr>,...`
//! (addresses: 8 hex digits = IPv4, 32 hex digits = IPv6).  Ops, all times in MICROSECONDS
//! (IGMP/MLD report timers are not scheduled through poll_at - C13 excludes them - so time is
//! driven explicitly):
//!   join <g> | leave <g>                      Interface::join/leave_multicast_group  -> `r 0|1|2`
//!                                             (Ok / GroupTableFull / Unaddressable)
//!   addr add <a>/<p> | addr del <a>/<p>       Interface::update_ip_addrs (push if room / retain) -> `ok`
//!   igmpq t=<us> dst=<a4> group=<a4> code=<u8>   an IGMP membership query frame (Max Resp Code octet
//!                                             as on the wire: 0 = IGMPv1) through poll_ingress_single -> `ok`
//!   mldq t=<us> hop=<n> src=<a6> dst=<a6> mcast=<a6> code=<u16>   an MLD query frame -> `ok`
//!   poll t=<us> budget=<k>                    Interface::poll with a device that accepts k more frames
//!                                             (-1 = unlimited) -> `p <n>` + one `tx ...` line per frame
//!   udp <g>                                   (oracle cases only) a UDP datagram to <g>:7000; a wildcard
//!                                             socket is bound there
//! After every op: `has <bits>` = Interface::has_multicast_group for each probe address.
//! A panic prints `panic` and ends the case.
//!
//! Sub-commands: gen <seed> <n> <tier> | run | oracle[-c10|-c11|-c03] <seed> <n> <tier> |
//! oracle-replay[-c10|-c11|-c03]  (the suffixed forms report only the classes of that property)
use smoltcp::iface::{Config, Interface, SocketHandle, SocketSet, SocketStorage};
use smoltcp::phy::Medium;
use smoltcp::socket::udp;
use smoltcp::time::Instant;
use smoltcp::wire::*;
use std::collections::BTreeSet;
use std::io::Write;
use svh::dev::QDev;
use svh::*;

const OWN_MAC: [u8; 6] = [0x02, 0, 0, 0, 0, 0x01];
const PEER_MAC: [u8; 6] = [0x02, 0, 0, 0, 0, 0x02];
const UDP_PORT: u16 = 7000;
const GROUP_CAP: usize = 4; // IFACE_MAX_MULTICAST_GROUP_COUNT of the default build (oracle bound only)

// ------------------------------------------------------------------ addresses

fn ip_p(s: &str) -> IpAddress {
    let b = unhex(s);
    match b.len() {
        4 => IpAddress::v4(b[0], b[1], b[2], b[3]),
        16 => {
            let mut a = [0u8; 16];
            a.copy_from_slice(&b);
            IpAddress::Ipv6(Ipv6Address::from(a))
        }
        _ => panic!("bad address {}", s),
    }
}

fn ip_s(a: &IpAddress) -> String {
    match a {
        IpAddress::Ipv4(x) => hex(&x.octets()),
        IpAddress::Ipv6(x) => hex(&x.octets()),
    }
}

fn cidr_p(s: &str) -> IpCidr {
    let (a, p) = s.split_once('/').expect("cidr");
    IpCidr::new(ip_p(a), p.parse().expect("plen"))
}

fn kv<'a>(ws: &'a [&'a str], k: &str) -> &'a str {
    for w in ws {
        if let Some(r) = w.strip_prefix(k) {
            if let Some(v) = r.strip_prefix('=') {
                return v;
            }
        }
    }
    panic!("missing {}", k)
}

// ------------------------------------------------------------------ frames (built by hand)

fn csum(parts: &[&[u8]]) -> u16 {
    let mut acc: u32 = 0;
    let mut all: Vec<u8> = vec![];
    for p in parts {
        all.extend_from_slice(p);
    }
    if all.len() % 2 == 1 {
        all.push(0);
    }
    for c in all.chunks(2) {
        acc += ((c[0] as u32) << 8) | c[1] as u32;
    }
    while acc >> 16 != 0 {
        acc = (acc & 0xffff) + (acc >> 16);
    }
    !(acc as u16)
}

fn eth_wrap(medium: Medium, dst_ip: &IpAddress, ethertype: u16, ip: Vec<u8>) -> Vec<u8> {
    if medium != Medium::Ethernet {
        return ip;
    }
    let dst_mac: [u8; 6] = match dst_ip {
        IpAddress::Ipv4(a) if a.is_multicast() => {
            let o = a.octets();
            [0x01, 0x00, 0x5e, o[1] & 0x7f, o[2], o[3]]
        }
        IpAddress::Ipv6(a) if a.is_multicast() => {
            let o = a.octets();
            [0x33, 0x33, o[12], o[13], o[14], o[15]]
        }
        _ => OWN_MAC,
    };
    let mut f = vec![];
    f.extend_from_slice(&dst_mac);
    f.extend_from_slice(&PEER_MAC);
    f.extend_from_slice(&ethertype.to_be_bytes());
    f.extend_from_slice(&ip);
    f
}

fn ipv4_packet(src: [u8; 4], dst: [u8; 4], proto: u8, ttl: u8, payload: &[u8]) -> Vec<u8> {
    let total = 20 + payload.len();
    let mut h = vec![0x45, 0, (total >> 8) as u8, total as u8, 0, 0, 0x40, 0, ttl, proto, 0, 0];
    h.extend_from_slice(&src);
    h.extend_from_slice(&dst);
    let c = csum(&[&h]);
    h[10] = (c >> 8) as u8;
    h[11] = c as u8;
    h.extend_from_slice(payload);
    h
}

fn ipv6_packet(src: [u8; 16], dst: [u8; 16], nh: u8, hop: u8, payload: &[u8]) -> Vec<u8> {
    let mut h = vec![0x60, 0, 0, 0, (payload.len() >> 8) as u8, payload.len() as u8, nh, hop];
    h.extend_from_slice(&src);
    h.extend_from_slice(&dst);
    h.extend_from_slice(payload);
    h
}

fn pseudo6(src: &[u8; 16], dst: &[u8; 16], nh: u8, len: usize) -> Vec<u8> {
    let mut p = vec![];
    p.extend_from_slice(src);
    p.extend_from_slice(dst);
    p.extend_from_slice(&(len as u32).to_be_bytes());
    p.extend_from_slice(&[0, 0, 0, nh]);
    p
}

const ROUTER4: [u8; 4] = [10, 0, 0, 254];

fn igmp_query_frame(medium: Medium, dst: [u8; 4], group: [u8; 4], code: u8) -> Vec<u8> {
    let mut m = vec![0x11, code, 0, 0];
    m.extend_from_slice(&group);
    let c = csum(&[&m]);
    m[2] = (c >> 8) as u8;
    m[3] = c as u8;
    let ip = ipv4_packet(ROUTER4, dst, 2, 1, &m);
    eth_wrap(medium, &IpAddress::v4(dst[0], dst[1], dst[2], dst[3]), 0x0800, ip)
}

fn mld_query_frame(medium: Medium, hop: u8, src: [u8; 16], dst: [u8; 16], mcast: [u8; 16], code: u16) -> Vec<u8> {
    let mut m = vec![130, 0, 0, 0, (code >> 8) as u8, code as u8, 0, 0];
    m.extend_from_slice(&mcast);
    m.extend_from_slice(&[0x02, 125, 0, 0]); // QRV 2, QQIC 125, no sources
    let c = csum(&[&pseudo6(&src, &dst, 58, m.len()), &m]);
    m[2] = (c >> 8) as u8;
    m[3] = c as u8;
    let ip = ipv6_packet(src, dst, 58, hop, &m);
    eth_wrap(medium, &IpAddress::Ipv6(Ipv6Address::from(dst)), 0x86dd, ip)
}

fn udp_frame(medium: Medium, dst: &IpAddress) -> Vec<u8> {
    let data = b"mcast-probe";
    let len = 8 + data.len();
    let mut u = vec![(9000u16 >> 8) as u8, 9000u16 as u8, (UDP_PORT >> 8) as u8, UDP_PORT as u8, (len >> 8) as u8, len as u8, 0, 0];
    u.extend_from_slice(data);
    match dst {
        IpAddress::Ipv4(d) => {
            let mut ph = vec![];
            ph.extend_from_slice(&ROUTER4);
            ph.extend_from_slice(&d.octets());
            ph.extend_from_slice(&[0, 17, (len >> 8) as u8, len as u8]);
            let mut c = csum(&[&ph, &u]);
            if c == 0 {
                c = 0xffff;
            }
            u[6] = (c >> 8) as u8;
            u[7] = c as u8;
            eth_wrap(medium, dst, 0x0800, ipv4_packet(ROUTER4, d.octets(), 17, 64, &u))
        }
        IpAddress::Ipv6(d) => {
            let src = Ipv6Address::new(0xfe80, 0, 0, 0, 0, 0, 0, 0xff).octets();
            let mut c = csum(&[&pseudo6(&src, &d.octets(), 17, len), &u]);
            if c == 0 {
                c = 0xffff;
            }
            u[6] = (c >> 8) as u8;
            u[7] = c as u8;
            eth_wrap(medium, dst, 0x86dd, ipv6_packet(src, d.octets(), 17, 64, &u))
        }
    }
}

// ------------------------------------------------------------------ emitted frames -> fields

#[derive(Clone, Debug, PartialEq)]
enum Kind {
    IgmpReport(u8, [u8; 4]),
    IgmpLeave([u8; 4]),
    MldReport(Vec<(u8, [u8; 16])>),
    Other(String),
}

#[derive(Clone, Debug)]
struct Tx {
    kind: Kind,
    src: IpAddress,
    dst: IpAddress,
    hop: u8,
    ra: bool,
    eth_dst: Option<[u8; 6]>,
}

fn parse_tx(medium: Medium, frame: &[u8]) -> Tx {
    let other = |s: &str| Tx {
        kind: Kind::Other(s.to_string()),
        src: IpAddress::v4(0, 0, 0, 0),
        dst: IpAddress::v4(0, 0, 0, 0),
        hop: 0,
        ra: false,
        eth_dst: None,
    };
    let (ip, eth_dst, ety): (&[u8], Option<[u8; 6]>, u16) = if medium == Medium::Ethernet {
        if frame.len() < 14 {
            return other("short-eth");
        }
        let mut d = [0u8; 6];
        d.copy_from_slice(&frame[0..6]);
        (&frame[14..], Some(d), u16::from_be_bytes([frame[12], frame[13]]))
    } else {
        if frame.is_empty() {
            return other("empty");
        }
        (frame, None, if frame[0] >> 4 == 4 { 0x0800 } else { 0x86dd })
    };
    match ety {
        0x0800 => {
            if ip.len() < 20 {
                return other("short-ipv4");
            }
            let ihl = (ip[0] & 15) as usize * 4;
            let total = u16::from_be_bytes([ip[2], ip[3]]) as usize;
            if ihl < 20 || ip.len() < total || total < ihl {
                return other("bad-ipv4");
            }
            let src = IpAddress::v4(ip[12], ip[13], ip[14], ip[15]);
            let dst = IpAddress::v4(ip[16], ip[17], ip[18], ip[19]);
            let mut ra = false;
            let mut i = 20;
            while i < ihl {
                match ip[i] {
                    0 => break,
                    1 => i += 1,
                    t => {
                        if t == 0x94 {
                            ra = true;
                        }
                        if i + 1 >= ihl || ip[i + 1] < 2 {
                            break;
                        }
                        i += ip[i + 1] as usize;
                    }
                }
            }
            let pl = &ip[ihl..total];
            if ip[9] != 2 {
                return Tx { kind: Kind::Other(format!("ipv4-proto-{}", ip[9])), src, dst, hop: ip[8], ra, eth_dst };
            }
            if pl.len() != 8 || csum(&[pl]) != 0 {
                return Tx { kind: Kind::Other("bad-igmp".into()), src, dst, hop: ip[8], ra, eth_dst };
            }
            let g = [pl[4], pl[5], pl[6], pl[7]];
            let kind = match pl[0] {
                0x16 => Kind::IgmpReport(2, g),
                0x12 => Kind::IgmpReport(1, g),
                0x17 => Kind::IgmpLeave(g),
                t => Kind::Other(format!("igmp-type-{}", t)),
            };
            Tx { kind, src, dst, hop: ip[8], ra, eth_dst }
        }
        0x86dd => {
            if ip.len() < 40 {
                return other("short-ipv6");
            }
            let plen = u16::from_be_bytes([ip[4], ip[5]]) as usize;
            if ip.len() < 40 + plen {
                return other("bad-ipv6-len");
            }
            let mut s = [0u8; 16];
            s.copy_from_slice(&ip[8..24]);
            let mut d = [0u8; 16];
            d.copy_from_slice(&ip[24..40]);
            let src = IpAddress::Ipv6(Ipv6Address::from(s));
            let dst = IpAddress::Ipv6(Ipv6Address::from(d));
            let hop = ip[7];
            let mut nh = ip[6];
            let mut off = 40;
            let end = 40 + plen;
            let mut ra = false;
            if nh == 0 {
                if end < off + 8 {
                    return other("short-hbh");
                }
                let hl = (ip[off + 1] as usize + 1) * 8;
                if end < off + hl {
                    return other("short-hbh");
                }
                let mut i = off + 2;
                while i < off + hl {
                    if ip[i] == 0 {
                        i += 1;
                        continue;
                    }
                    if i + 1 >= off + hl {
                        break;
                    }
                    if ip[i] == 5 && ip[i + 1] == 2 {
                        ra = true;
                    }
                    i += 2 + ip[i + 1] as usize;
                }
                nh = ip[off];
                off += hl;
            }
            if nh != 58 {
                return Tx { kind: Kind::Other(format!("ipv6-nh-{}", nh)), src, dst, hop, ra, eth_dst };
            }
            let m = &ip[off..end];
            if m.len() < 8 || m[0] != 143 {
                return Tx { kind: Kind::Other(format!("icmpv6-type-{}", if m.is_empty() { 0 } else { m[0] })), src, dst, hop, ra, eth_dst };
            }
            if csum(&[&pseudo6(&s, &d, 58, m.len()), m]) != 0 {
                return Tx { kind: Kind::Other("bad-icmpv6-checksum".into()), src, dst, hop, ra, eth_dst };
            }
            let n = u16::from_be_bytes([m[6], m[7]]) as usize;
            let mut recs = vec![];
            let mut i = 8;
            for _ in 0..n {
                if m.len() < i + 20 {
                    return Tx { kind: Kind::Other("short-mld-record".into()), src, dst, hop, ra, eth_dst };
                }
                let aux = m[i + 1] as usize;
                let ns = u16::from_be_bytes([m[i + 2], m[i + 3]]) as usize;
                let mut a = [0u8; 16];
                a.copy_from_slice(&m[i + 4..i + 20]);
                recs.push((m[i], a));
                i += 20 + 16 * ns + 4 * aux;
            }
            if i != m.len() {
                return Tx { kind: Kind::Other("mld-trailing-bytes".into()), src, dst, hop, ra, eth_dst };
            }
            Tx { kind: Kind::MldReport(recs), src, dst, hop, ra, eth_dst }
        }
        e => other(&format!("ethertype-{:04x}", e)),
    }
}

fn rec_s(t: u8) -> String {
    match t {
        2 => "is-ex".into(),
        3 => "to-in".into(),
        4 => "to-ex".into(),
        x => format!("type{}", x),
    }
}

fn show_tx(t: &Tx) -> String {
    let tail = format!("src={} dst={} hop={} ra={}", ip_s(&t.src), ip_s(&t.dst), t.hop, t.ra as u8);
    match &t.kind {
        Kind::IgmpReport(v, g) => format!("tx igmp-report v={} g={} {}", v, hex(g), tail),
        Kind::IgmpLeave(g) => format!("tx igmp-leave g={} {}", hex(g), tail),
        Kind::MldReport(r) => format!(
            "tx mld-report recs={} {}",
            if r.is_empty() { "-".to_string() } else { r.iter().map(|(t, a)| format!("{}:{}", rec_s(*t), hex(a))).collect::<Vec<_>>().join(",") },
            tail
        ),
        Kind::Other(s) => format!("tx other {} {}", s, tail),
    }
}

// ------------------------------------------------------------------ device

/// QDev plus an optional grant pattern: while `pattern` is set, every call of transmit() consumes
/// one answer of it (true = hand out a token of the queue device, false / exhausted = None), so a
/// device that refuses and accepts alternately within one poll can be scripted.
struct PDev {
    q: QDev,
    pattern: Option<std::collections::VecDeque<bool>>,
}

impl smoltcp::phy::Device for PDev {
    type RxToken<'a> = <QDev as smoltcp::phy::Device>::RxToken<'a>;
    type TxToken<'a> = <QDev as smoltcp::phy::Device>::TxToken<'a>;
    fn receive(&mut self, t: Instant) -> Option<(Self::RxToken<'_>, Self::TxToken<'_>)> {
        self.q.receive(t)
    }
    fn transmit(&mut self, t: Instant) -> Option<Self::TxToken<'_>> {
        if let Some(p) = self.pattern.as_mut() {
            if p.pop_front() != Some(true) {
                return None;
            }
        }
        self.q.transmit(t)
    }
    fn capabilities(&self) -> smoltcp::phy::DeviceCapabilities {
        self.q.capabilities()
    }
}

// ------------------------------------------------------------------ the interface under test

struct Node {
    iface: Interface,
    dev: PDev,
    sockets: SocketSet<'static>,
    udp: SocketHandle,
    medium: Medium,
    probes: Vec<IpAddress>,
    now: i64,
}

fn medium_of(c: &Case) -> Medium {
    match c.get("medium").unwrap_or("eth") {
        "eth" => Medium::Ethernet,
        "ip" => Medium::Ip,
        "154" => Medium::Ieee802154,
        m => panic!("medium {}", m),
    }
}

fn mk_node(c: &Case) -> Node {
    let medium = medium_of(c);
    let mtu = c.get_i("mtu", 1500) as usize;
    let seed = u64::from_str_radix(c.get("seed").unwrap_or("0"), 16).expect("seed");
    let mut dev = PDev { q: QDev::new(medium, mtu), pattern: None };
    let hw = match medium {
        Medium::Ethernet => HardwareAddress::Ethernet(EthernetAddress(OWN_MAC)),
        Medium::Ip => HardwareAddress::Ip,
        Medium::Ieee802154 => HardwareAddress::Ieee802154(Ieee802154Address::Extended([2, 0, 0, 0, 0, 0, 0, 1])),
    };
    let mut cfg = Config::new(hw);
    cfg.random_seed = seed;
    if medium == Medium::Ieee802154 {
        cfg.pan_id = Some(Ieee802154Pan(0xabcd));
    }
    let iface = Interface::new(cfg, &mut dev, Instant::ZERO);
    let storage: Vec<SocketStorage<'static>> = Vec::new();
    let mut sockets = SocketSet::new(storage);
    let rx = udp::PacketBuffer::new(vec![udp::PacketMetadata::EMPTY; 8], vec![0; 1024]);
    let tx = udp::PacketBuffer::new(vec![udp::PacketMetadata::EMPTY; 8], vec![0; 1024]);
    let mut s = udp::Socket::new(rx, tx);
    s.bind(UDP_PORT).unwrap();
    let udp = sockets.add(s);
    let probes = c.get("probe").unwrap_or("").split(',').filter(|s| !s.is_empty()).map(ip_p).collect();
    Node { iface, dev, sockets, udp, medium, probes, now: 0 }
}

/// what one op produced on the implementation
#[derive(Default)]
struct OpOut {
    lines: Vec<String>,
    txs: Vec<Tx>,
    ret: Option<u8>,
    delivered: Option<bool>,
}

fn merr(r: std::result::Result<(), smoltcp::iface::MulticastError>) -> u8 {
    match r {
        Ok(()) => 0,
        Err(smoltcp::iface::MulticastError::GroupTableFull) => 1,
        Err(smoltcp::iface::MulticastError::Unaddressable) => 2,
    }
}

fn drain(n: &mut Node, out: &mut OpOut) {
    for f in n.dev.q.drain_tx() {
        let t = parse_tx(n.medium, &f);
        out.lines.push(show_tx(&t));
        out.txs.push(t);
    }
}

fn a4(s: &str) -> [u8; 4] {
    let b = unhex(s);
    [b[0], b[1], b[2], b[3]]
}
fn a16(s: &str) -> [u8; 16] {
    let b = unhex(s);
    let mut a = [0u8; 16];
    a.copy_from_slice(&b);
    a
}

fn apply(n: &mut Node, op: &str) -> OpOut {
    let ws: Vec<&str> = op.split_whitespace().collect();
    let mut out = OpOut::default();
    match ws[0] {
        "join" => {
            let r = merr(n.iface.join_multicast_group(ip_p(ws[1])));
            out.ret = Some(r);
            out.lines.push(format!("r {}", r));
        }
        "leave" => {
            let r = merr(n.iface.leave_multicast_group(ip_p(ws[1])));
            out.ret = Some(r);
            out.lines.push(format!("r {}", r));
        }
        "addr" => {
            let c = cidr_p(ws[2]);
            if ws[1] == "add" {
                n.iface.update_ip_addrs(|a| {
                    let _ = a.push(c);
                });
            } else {
                n.iface.update_ip_addrs(|a| a.retain(|x| *x != c));
            }
            out.lines.push("ok".into());
        }
        "igmpq" => {
            let r = &ws[1..];
            let t: i64 = kv(r, "t").parse().unwrap();
            n.now = t;
            let f = igmp_query_frame(n.medium, a4(kv(r, "dst")), a4(kv(r, "group")), kv(r, "code").parse().unwrap());
            n.dev.q.tx_budget = None;
            n.dev.q.rx.push_back(f);
            n.iface.poll_ingress_single(Instant::from_micros(t), &mut n.dev, &mut n.sockets);
            out.lines.push("ok".into());
            drain(n, &mut out);
        }
        "mldq" => {
            let r = &ws[1..];
            let t: i64 = kv(r, "t").parse().unwrap();
            n.now = t;
            let f = mld_query_frame(
                n.medium,
                kv(r, "hop").parse().unwrap(),
                a16(kv(r, "src")),
                a16(kv(r, "dst")),
                a16(kv(r, "mcast")),
                kv(r, "code").parse().unwrap(),
            );
            n.dev.q.tx_budget = None;
            n.dev.q.rx.push_back(f);
            n.iface.poll_ingress_single(Instant::from_micros(t), &mut n.dev, &mut n.sockets);
            out.lines.push("ok".into());
            drain(n, &mut out);
        }
        "poll" => {
            let r = &ws[1..];
            let t: i64 = kv(r, "t").parse().unwrap();
            n.now = t;
            if let Some(g) = r.iter().find_map(|w| w.strip_prefix("grants=")) {
                n.dev.q.tx_budget = None;
                n.dev.pattern = Some(g.chars().map(|c| c == '1').collect());
            } else {
                let k: i64 = kv(r, "budget").parse().unwrap();
                n.dev.q.tx_budget = if k < 0 { None } else { Some(k as usize) };
            }
            n.iface.poll(Instant::from_micros(t), &mut n.dev, &mut n.sockets);
            n.dev.q.tx_budget = None;
            n.dev.pattern = None;
            let mut o2 = OpOut::default();
            drain(n, &mut o2);
            out.lines.push(format!("p {}", o2.txs.len()));
            out.lines.extend(o2.lines);
            out.txs = o2.txs;
        }
        "udp" => {
            let g = ip_p(ws[1]);
            let f = udp_frame(n.medium, &g);
            n.dev.q.tx_budget = None;
            n.dev.q.rx.push_back(f);
            // the last poll's time is kept: ingress of a datagram does not depend on it
            n.iface.poll_ingress_single(Instant::from_micros(n.now), &mut n.dev, &mut n.sockets);
            let s = n.sockets.get_mut::<udp::Socket>(n.udp);
            let mut got = false;
            while s.can_recv() {
                let _ = s.recv();
                got = true;
            }
            out.delivered = Some(got);
            out.lines.push(format!("d {}", got as u8));
            drain(n, &mut out);
        }
        _ => panic!("bad op {}", op),
    }
    let bits: String = n.probes.iter().map(|g| if n.iface.has_multicast_group(*g) { '1' } else { '0' }).collect();
    out.lines.push(format!("has {}", bits));
    out
}

fn run_case(c: &Case, w: &mut dyn Write) {
    writeln!(w, "case {}", c.id).unwrap();
    let r = catch(std::panic::AssertUnwindSafe(|| {
        let mut n = mk_node(c);
        let mut lines = vec![];
        for op in &c.ops {
            let r = catch(std::panic::AssertUnwindSafe(|| apply(&mut n, op)));
            match r {
                Some(o) => lines.extend(o.lines),
                None => {
                    lines.push("panic".to_string());
                    break;
                }
            }
        }
        lines
    }));
    match r {
        Some(lines) => {
            for l in lines {
                writeln!(w, "{}", l).unwrap();
            }
        }
        None => writeln!(w, "panic").unwrap(),
    }
}

// ------------------------------------------------------------------ generator

const G4: [&str; 7] = ["e0010203", "e00000fb", "effffffa", "e0000001", "e0000002", "e1010101", "e6000007"];
const G6: [&str; 8] = [
    "ff0200000000000000000000000000fb",
    "ff050000000000000000000000010003",
    "ff0e0000000000000000000000001234",
    "ff020000000000000000000000000001",
    "ff0200000000000000000001ff000001", // solicited-node group of fe80::1 and 2001:db8::1
    "ff0200000000000000000001ffaabbcc", // solicited-node group of 2001:db8::aa:bbcc
    "ff0200000000000000000001ff123456", // solicited-node form, nobody's
    "ff020000000000000000000000000016",
];
const A4: [&str; 3] = ["0a000001/24", "c0a80107/24", "0a000005/8"];
const A6: [&str; 4] = [
    "fe800000000000000000000000000001/64",
    "20010db8000000000000000000000001/64",
    "20010db80000000000000000ffaabbcc/64",
    "fe8000000000000002000000fe000005/64",
];
const NONMC: [&str; 3] = ["0a000009", "fe800000000000000000000000000009", "00000000"];
const LL_ROUTER: &str = "fe8000000000000000000000000000ff";
const GLOBAL_ROUTER: &str = "20010db80000000000000000000000ff";

fn igmp_code_to_us(code: u64) -> i64 {
    let ds = if code < 128 { code } else { ((code & 15) | 16) << (((code >> 4) & 7) + 3) };
    (ds * 100_000) as i64
}

struct Gen {
    rng: Rng,
    now: i64,
    cands: Vec<i64>,
    addrs: Vec<String>,
    joined: Vec<String>,
}

impl Gen {
    fn group(&mut self, v6_ok: bool) -> String {
        let r = self.rng.below(100);
        if r < 35 && !self.joined.is_empty() {
            let i = self.rng.below(self.joined.len() as u64) as usize;
            return self.joined[i].clone();
        }
        if v6_ok && self.rng.chance(1, 2) {
            self.rng.pick(&G6).to_string()
        } else {
            self.rng.pick(&G4).to_string()
        }
    }

    fn next_time(&mut self) -> i64 {
        let r = self.rng.below(100);
        let t = if r < 45 && !self.cands.is_empty() {
            let i = self.rng.below(self.cands.len() as u64) as usize;
            let c = self.cands[i];
            if self.rng.chance(1, 3) {
                self.cands.swap_remove(i);
            }
            c + self.rng.range(-1, 1)
        } else if r < 70 {
            self.now + self.rng.range(0, 2000)
        } else if r < 90 {
            self.now + self.rng.range(0, 3_000_000)
        } else if r < 97 {
            self.now
        } else {
            self.now - self.rng.range(0, 5000) // the clock handed to poll need not be monotone
        };
        let t = t.max(0);
        if t > self.now {
            self.now = t;
        }
        t
    }

    fn op(&mut self, _oracle: bool, medium: &str) -> String {
        let v4_ok = medium != "154";
        let r = self.rng.below(100);
        if r < 22 {
            let g = if self.rng.chance(1, 25) { self.rng.pick(&NONMC).to_string() } else if v4_ok { self.group(true) } else { self.rng.pick(&G6).to_string() };
            if !self.joined.contains(&g) {
                self.joined.push(g.clone());
            }
            format!("join {}", g)
        } else if r < 36 {
            let g = if self.rng.chance(1, 25) { self.rng.pick(&NONMC).to_string() } else if v4_ok { self.group(true) } else { self.rng.pick(&G6).to_string() };
            self.joined.retain(|x| *x != g);
            format!("leave {}", g)
        } else if r < 44 {
            let a = if v4_ok && self.rng.chance(2, 5) { self.rng.pick(&A4).to_string() } else { self.rng.pick(&A6).to_string() };
            if self.rng.chance(2, 3) || self.addrs.is_empty() {
                self.addrs.push(a.clone());
                format!("addr add {}", a)
            } else {
                let i = self.rng.below(self.addrs.len() as u64) as usize;
                let a = self.addrs.swap_remove(i);
                format!("addr del {}", a)
            }
        } else if r < 54 && v4_ok {
            let t = self.next_time();
            let group = match self.rng.below(10) {
                0..=4 => "00000000".to_string(),
                _ => self.group(false),
            };
            let group = if group.len() == 8 { group } else { "e0010203".to_string() };
            let dst = match self.rng.below(10) {
                0..=4 => if group == "00000000" { "e0000001".to_string() } else { group.clone() },
                5 => "e0000001".to_string(),
                6 => "0a000001".to_string(),
                7 => group.clone(),
                _ => self.rng.pick(&G4).to_string(),
            };
            let dst = if dst == "00000000" { "e0000001".to_string() } else { dst };
            let code = match self.rng.below(10) {
                0 | 1 => 0,
                2 => 1,
                3 => 10,
                4 => 100,
                5 => 127,
                6 => 128 + self.rng.below(128),
                7 => 255,
                _ => self.rng.below(256),
            };
            let mrt = igmp_code_to_us(code);
            for k in 1..=5 {
                for nn in 2..=5 {
                    self.cands.push(t + mrt / nn * k);
                }
                self.cands.push(t + 100_000 * k);
            }
            self.cands.push(t + mrt / 4);
            self.cands.push(t + mrt);
            format!("igmpq t={} dst={} group={} code={}", t, dst, group, code)
        } else if r < 64 {
            let t = self.next_time();
            let mcast = match self.rng.below(10) {
                0..=4 => "0".repeat(32),
                _ => {
                    let g = self.group(true);
                    if g.len() == 32 { g } else { self.rng.pick(&G6).to_string() }
                }
            };
            let own: Vec<String> = self.addrs.iter().filter(|a| a.len() > 20).map(|a| a.split('/').next().unwrap().to_string()).collect();
            let general = mcast.chars().all(|c| c == '0');
            let dst = match self.rng.below(10) {
                0..=5 => if general { G6[3].to_string() } else { mcast.clone() },
                6 | 7 if !own.is_empty() => own[self.rng.below(own.len() as u64) as usize].clone(),
                8 => G6[3].to_string(),
                _ => self.rng.pick(&G6).to_string(),
            };
            let hop = match self.rng.below(12) { 0 => 64, 1 => 255, 2 => 0, _ => 1 };
            let src = if self.rng.chance(1, 12) { GLOBAL_ROUTER } else { LL_ROUTER };
            let code: u64 = match self.rng.below(10) {
                0 => 0,
                1 | 2 => 1,
                3 | 4 => 2 + self.rng.below(4),
                5 => 1000,
                6 => 10000,
                7 => 65535,
                _ => self.rng.below(65536),
            };
            for k in 0..=code.min(6) {
                self.cands.push(t + (k as i64) * 1000);
            }
            self.cands.push(t + code as i64 * 1000);
            format!("mldq t={} hop={} src={} dst={} mcast={} code={}", t, hop, src, dst, mcast, code)
        } else if r < 70 {
            let g = if v4_ok { self.group(true) } else { self.rng.pick(&G6).to_string() };
            format!("udp {}", g)
        } else {
            let t = self.next_time();
            let budget = match self.rng.below(20) {
                0..=11 => -1,
                12..=14 => 0,
                15..=17 => 1,
                18 => 2,
                _ => 3,
            };
            if self.rng.chance(1, 5) {
                let k = self.rng.range(1, 7);
                let bits: String = (0..k).map(|_| if self.rng.chance(3, 5) { '1' } else { '0' }).collect();
                format!("poll t={} grants={}", t, bits)
            } else {
                format!("poll t={} budget={}", t, budget)
            }
        }
    }
}

fn gen_case(seed: u64, idx: usize, tier: &str, oracle: bool) -> Case {
    let mut rng = Rng::new(seed.wrapping_mul(1_000_003).wrapping_add(idx as u64));
    let medium = if oracle {
        *rng.pick(&["eth", "eth", "ip", "ip", "154"])
    } else {
        *rng.pick(&["eth", "eth", "ip"])
    };
    let nops = if tier == "thorough" { rng.range(4, 60) } else { rng.range(3, 36) } as usize;
    let iseed = rng.next();
    let mut probes: Vec<&str> = vec![];
    probes.extend_from_slice(&G4);
    probes.extend_from_slice(&G6);
    probes.push("ff0200000000000000000001ff000005"); // solicited-node group of fe80::200:ff:fe00:5
    probes.push("e0000016");
    let mut g = Gen { rng, now: 0, cands: vec![], addrs: vec![], joined: vec![] };
    let mut ops = vec![];
    // most cases start with an address or two so that reports have a source
    if g.rng.chance(4, 5) {
        let a = if medium == "154" { A6[0] } else { *g.rng.pick(&["0a000001/24", "fe800000000000000000000000000001/64"]) };
        g.addrs.push(a.to_string());
        ops.push(format!("addr add {}", a));
    }
    for _ in 0..nops {
        ops.push(g.op(oracle, medium));
    }
    Case {
        id: format!("{}-{}", seed, idx),
        cfg: vec![
            ("medium".into(), medium.into()),
            ("mtu".into(), "1500".into()),
            ("seed".into(), format!("{:016x}", iseed)),
            ("probe".into(), probes.join(",")),
        ],
        ops,
    }
}

// ------------------------------------------------------------------ oracle

/// independent bookkeeping of what the application asked for
struct Shadow {
    addrs: Vec<IpCidr>,
    /// groups whose last successful membership call was a join
    joined: BTreeSet<IpAddress>,
}

fn is_solicited_form(a: &Ipv6Address) -> bool {
    a.octets()[..13] == [0xff, 2, 0, 0, 0, 0, 0, 0, 0, 0, 0, 1, 0xff]
}

impl Shadow {
    fn special(&self, g: &IpAddress) -> bool {
        match g {
            IpAddress::Ipv4(a) => a.octets() == [224, 0, 0, 1],
            IpAddress::Ipv6(a) => {
                if a.octets() == Ipv6Address::new(0xff02, 0, 0, 0, 0, 0, 0, 1).octets() {
                    return true;
                }
                is_solicited_form(a)
                    && self.addrs.iter().any(|c| match c.address() {
                        IpAddress::Ipv6(o) => o.octets() != Ipv6Address::LOCALHOST.octets() && o.octets()[13..] == a.octets()[13..],
                        _ => false,
                    })
            }
        }
    }
    fn member(&self, g: &IpAddress) -> bool {
        self.joined.contains(g) || self.special(g)
    }
    fn own(&self, a: &IpAddress) -> bool {
        self.addrs.iter().any(|c| c.address() == *a)
    }
}

fn oracle_case(c: &Case, fails: &mut Vec<String>, stats: &mut std::collections::BTreeMap<String, u64>) {
    let mut bump = |k: &str, v: u64| *stats.entry(k.to_string()).or_insert(0) += v;
    let medium = medium_of(c);
    let built = catch(std::panic::AssertUnwindSafe(|| mk_node(c)));
    let Some(mut n) = built else {
        fails.push("mcast-panic :: Interface::new".into());
        return;
    };
    let mut sh = Shadow { addrs: vec![], joined: BTreeSet::new() };
    // general-query bookkeeping: groups reported since the last IGMP query / table change
    let mut igmp_reported: Vec<[u8; 4]> = vec![];
    // `settled`: an unlimited poll ran after the last membership / address change (nothing is
    // Joining or Leaving); `armed`: an IGMP query arrived in a settled state and nothing but polls
    // followed, so every group may be reported at most once
    let mut settled = false;
    let mut armed = false;
    let mut last_t: i64 = 0;
    for op in &c.ops {
        let ws: Vec<&str> = op.split_whitespace().collect();
        let r = catch(std::panic::AssertUnwindSafe(|| apply(&mut n, op)));
        let Some(out) = r else {
            fails.push(format!("mcast-panic :: op `{}` panicked", op));
            return;
        };
        bump("ops", 1);
        match ws[0] {
            "join" => {
                let g = ip_p(ws[1]);
                match out.ret {
                    Some(0) => {
                        if !g.is_multicast() {
                            fails.push(format!("mcast-join-accepted-non-multicast :: {}", op));
                        }
                        sh.joined.insert(g);
                    }
                    Some(2) => {
                        if g.is_multicast() {
                            fails.push(format!("mcast-join-refused-multicast :: {}", op));
                        }
                    }
                    Some(1) => bump("table_full", 1),
                    _ => {}
                }
                igmp_reported.clear();
                settled = false;
                armed = false;
            }
            "leave" => {
                let g = ip_p(ws[1]);
                if out.ret == Some(0) {
                    sh.joined.remove(&g);
                }
                igmp_reported.clear();
                settled = false;
                armed = false;
            }
            "addr" => {
                let cd = cidr_p(ws[2]);
                if ws[1] == "add" {
                    if sh.addrs.len() < 2 {
                        sh.addrs.push(cd);
                    }
                } else {
                    sh.addrs.retain(|x| *x != cd);
                }
                // the stack drops application-joined groups of solicited-node form that belong to no
                // own address when the address list changes (Ethernet only): follow it, it is not C11's
                if medium == Medium::Ethernet {
                    let addrs = sh.addrs.clone();
                    sh.joined.retain(|g| match g {
                        IpAddress::Ipv6(a) if is_solicited_form(a) => addrs.iter().any(|c| match c.address() {
                            IpAddress::Ipv6(o) => o.octets()[13..] == a.octets()[13..],
                            _ => false,
                        }),
                        _ => true,
                    });
                }
                igmp_reported.clear();
                settled = false;
                armed = false;
            }
            "igmpq" => {
                igmp_reported.clear();
                armed = settled;
                bump("igmp_queries", 1);
            }
            "mldq" => bump("mld_queries", 1),
            "udp" => {
                let g = ip_p(ws[1]);
                bump("udp_probes", 1);
                let fam_ok = medium != Medium::Ieee802154; // plain frames are not 802.15.4 frames: skip there
                if fam_ok {
                    let want = sh.member(&g);
                    match out.delivered {
                        Some(true) if !want => fails.push(format!("mcast-unjoined-group-delivered :: datagram to {} reached the socket", ws[1])),
                        Some(false) if want => fails.push(format!("mcast-joined-group-not-delivered :: datagram to {} was dropped", ws[1])),
                        _ => {}
                    }
                    if out.delivered == Some(true) {
                        bump("udp_delivered", 1);
                    }
                    if !out.txs.is_empty() {
                        fails.push(format!("mcast-multicast-datagram-answered :: datagram to {} answered with {}", ws[1], show_tx(&out.txs[0])));
                    }
                }
            }
            "poll" => {
                last_t = kv(&ws[1..], "t").parse().unwrap();
                if ws[1..].iter().any(|w| *w == "budget=-1") {
                    settled = true;
                }
                bump("polls", 1);
                bump("frames", out.txs.len() as u64);
                if out.txs.len() > 2 * GROUP_CAP + 2 {
                    fails.push(format!("mcast-poll-unbounded-egress :: {} frames in one poll", out.txs.len()));
                }
                let k: i64 = match ws[1..].iter().find_map(|w| w.strip_prefix("grants=")) {
                    Some(g) => g.chars().filter(|c| *c == '1').count() as i64,
                    None => kv(&ws[1..], "budget").parse().unwrap(),
                };
                if k >= 0 && out.txs.len() as i64 > k {
                    fails.push(format!("mcast-poll-ignores-device-refusal :: {} frames with budget {}", out.txs.len(), k));
                }
            }
            _ => {}
        }
        // C10 on every emitted frame (queries must not be answered at ingress at all)
        if (ws[0] == "igmpq" || ws[0] == "mldq") && !out.txs.is_empty() {
            fails.push(format!("mcast-query-answered-at-ingress :: {}", show_tx(&out.txs[0])));
        }
        for t in &out.txs {
            check_tx(t, &sh, medium, fails);
            check_membership(t, &sh, fails);
            if let Kind::IgmpReport(_, g) = &t.kind {
                if ws[0] == "poll" {
                    if armed && igmp_reported.contains(g) {
                        fails.push(format!("mcast-group-reported-twice :: `{}` repeats a report of the same query response", show_tx(t)));
                    }
                    igmp_reported.push(*g);
                }
            }
        }
        // membership answers
        for g in n.probes.clone() {
            let has = n.iface.has_multicast_group(g);
            if has != sh.member(&g) {
                fails.push(format!("mcast-has-group-mismatch :: has_multicast_group({}) = {} after `{}`", ip_s(&g), has, op));
                break;
            }
        }
        if n.iface.has_multicast_group(IpAddress::v4(10, 0, 0, 1)) {
            fails.push("mcast-has-group-mismatch :: unicast address reported as a group".into());
        }
    }
    // termination of the report machines: with an accepting device and time far ahead the
    // interface falls silent after a bounded number of polls
    let far = last_t + 400_000_000;
    let mut silent = false;
    let mut total = 0;
    for i in 0..(2 * GROUP_CAP + 4) {
        // far apart: a response machine that re-arms its timer must not look silent
        let r = catch(std::panic::AssertUnwindSafe(|| apply(&mut n, &format!("poll t={} budget=-1", far + 400_000_000 * i as i64))));
        let Some(out) = r else {
            fails.push("mcast-panic :: trailing poll panicked".into());
            return;
        };
        for t in &out.txs {
            check_tx(t, &sh, medium, fails);
            check_membership(t, &sh, fails);
        }
        total += out.txs.len();
        if out.txs.is_empty() {
            silent = true;
            break;
        }
    }
    if !silent {
        fails.push(format!("mcast-report-machine-never-quiesces :: still emitting after {} frames", total));
    }
    // ... and afterwards no group is left in a transient state: a left group stays left
    for g in n.probes.clone() {
        if n.iface.has_multicast_group(g) != sh.member(&g) {
            fails.push(format!("mcast-has-group-mismatch :: has_multicast_group({}) wrong after the trailing polls", ip_s(&g)));
            break;
        }
    }
    bump("cases", 1);
}

/// a membership report names only groups the interface is a member of at that moment, a leave
/// only groups it is not (property C11: nothing is answered on behalf of an unjoined group)
fn check_membership(t: &Tx, sh: &Shadow, fails: &mut Vec<String>) {
    match &t.kind {
        Kind::IgmpReport(_, g) => {
            if !sh.member(&IpAddress::v4(g[0], g[1], g[2], g[3])) {
                fails.push(format!("mcast-report-for-left-group :: `{}` although the group is not joined", show_tx(t)));
            }
        }
        Kind::IgmpLeave(g) => {
            if sh.joined.contains(&IpAddress::v4(g[0], g[1], g[2], g[3])) {
                fails.push(format!("mcast-leave-for-joined-group :: `{}` although the group is joined", show_tx(t)));
            }
        }
        Kind::MldReport(recs) => {
            for (ty, a) in recs {
                let g = IpAddress::Ipv6(Ipv6Address::from(*a));
                if (*ty == 2 || *ty == 3) && !sh.member(&g) {
                    fails.push(format!("mcast-report-for-left-group :: `{}` although {} is not joined", show_tx(t), hex(a)));
                }
                if *ty == 4 && sh.joined.contains(&g) {
                    fails.push(format!("mcast-leave-for-joined-group :: `{}` although {} is joined", show_tx(t), hex(a)));
                }
            }
        }
        Kind::Other(_) => {}
    }
}

/// property C10 for one multicast control frame
fn check_tx(t: &Tx, sh: &Shadow, medium: Medium, fails: &mut Vec<String>) {
    let all_routers4 = IpAddress::v4(224, 0, 0, 2);
    let mld_routers = IpAddress::Ipv6(Ipv6Address::new(0xff02, 0, 0, 0, 0, 0, 0, 0x16));
    let mut bad = |cls: &str, why: String| fails.push(format!("{} :: {} in `{}`", cls, why, show_tx(t)));
    match &t.kind {
        Kind::Other(s) => bad("mcast-unexpected-frame", format!("frame of kind {}", s)),
        Kind::IgmpReport(_, g) => {
            if t.dst != IpAddress::v4(g[0], g[1], g[2], g[3]) {
                bad("mcast-report-dst-illegal", "IGMP report not sent to the reported group".into());
            }
            if !t.dst.is_multicast() {
                bad("mcast-report-dst-illegal", "IGMP report for a non-multicast group".into());
            }
        }
        Kind::IgmpLeave(_) => {
            if t.dst != all_routers4 {
                bad("mcast-report-dst-illegal", "IGMP leave not sent to 224.0.0.2".into());
            }
        }
        Kind::MldReport(recs) => {
            if t.dst != mld_routers {
                bad("mcast-report-dst-illegal", "MLDv2 report not sent to ff02::16".into());
            }
            if !t.ra {
                bad("mcast-mld-without-router-alert", "MLDv2 report without a router-alert option".into());
            }
            for (_, a) in recs {
                if a[0] != 0xff {
                    bad("mcast-report-dst-illegal", "MLDv2 record for a non-multicast address".into());
                }
            }
        }
    }
    if matches!(t.kind, Kind::Other(_)) {
        return;
    }
    if t.hop != 1 {
        bad("mcast-report-hop-limit", format!("hop limit {}", t.hop));
    }
    match (&t.kind, &t.src) {
        (Kind::MldReport(_), IpAddress::Ipv6(s)) => {
            let has_ll = sh.addrs.iter().any(|c| matches!(c.address(), IpAddress::Ipv6(a) if a.octets()[..8] == [0xfe, 0x80, 0, 0, 0, 0, 0, 0]));
            if s.is_unspecified() {
                if has_ll {
                    bad("mcast-report-src-illegal", "unspecified source although a link-local address is configured".into());
                }
            } else if !sh.own(&t.src) || s.octets()[..8] != [0xfe, 0x80, 0, 0, 0, 0, 0, 0] {
                bad("mcast-report-src-illegal", "MLD source is not an own link-local address".into());
            }
        }
        (Kind::IgmpReport(..) | Kind::IgmpLeave(_), IpAddress::Ipv4(s)) => {
            if !sh.own(&t.src) || s.is_unspecified() || s.is_multicast() || s.is_broadcast() {
                bad("mcast-report-src-illegal", "IGMP source is not an own unicast address".into());
            }
        }
        _ => bad("mcast-report-src-illegal", "source of the wrong family".into()),
    }
    if medium == Medium::Ethernet {
        let want: [u8; 6] = match &t.dst {
            IpAddress::Ipv4(a) => {
                let o = a.octets();
                [1, 0, 0x5e, o[1] & 0x7f, o[2], o[3]]
            }
            IpAddress::Ipv6(a) => {
                let o = a.octets();
                [0x33, 0x33, o[12], o[13], o[14], o[15]]
            }
        };
        if t.eth_dst != Some(want) {
            bad("mcast-report-dst-illegal", "Ethernet destination is not the group's mapped address".into());
        }
    }
}

/// which property an oracle class belongs to (sub-commands oracle-c10 / -c11 / -c03 report only theirs)
fn prop_of(class: &str) -> &'static str {
    match class {
        "mcast-report-src-illegal" | "mcast-report-dst-illegal" | "mcast-report-hop-limit"
        | "mcast-mld-without-router-alert" | "mcast-unexpected-frame" => "c10",
        "mcast-unjoined-group-delivered" | "mcast-joined-group-not-delivered" | "mcast-multicast-datagram-answered"
        | "mcast-has-group-mismatch" | "mcast-report-for-left-group" | "mcast-leave-for-joined-group"
        | "mcast-join-accepted-non-multicast" | "mcast-join-refused-multicast" | "mcast-query-answered-at-ingress" => "c11",
        _ => "c03",
    }
}

fn filter_fails(fails: Vec<String>, only: Option<&str>) -> Vec<String> {
    match only {
        None => fails,
        Some(p) => fails.into_iter().filter(|f| prop_of(f.split("::").next().unwrap().trim()) == p).collect(),
    }
}

fn print_fail(c: &Case, fails: &[String], w: &mut dyn Write) {
    if fails.is_empty() {
        return;
    }
    writeln!(w, "FAILCASE").unwrap();
    c.write(w);
    let mut seen = BTreeSet::new();
    for f in fails {
        let cls = f.split("::").next().unwrap().trim().to_string();
        if seen.insert(cls) {
            writeln!(w, "FAIL {}", f).unwrap();
        }
    }
}

fn main() {
    quiet_panics();
    let args: Vec<String> = std::env::args().collect();
    let sub = args.get(1).map(|s| s.as_str()).unwrap_or("");
    let out = std::io::stdout();
    match sub {
        "gen" => {
            let seed: u64 = args[2].parse().unwrap();
            let n: usize = args[3].parse().unwrap();
            let tier = args.get(4).map(|s| s.as_str()).unwrap_or("quick");
            let mut w = std::io::BufWriter::new(out.lock());
            for i in 0..n {
                gen_case(seed, i, tier, false).write(&mut w);
            }
        }
        "run" => {
            let cases = stdin_cases();
            let mut w = std::io::BufWriter::new(out.lock());
            for c in &cases {
                run_case(c, &mut w);
            }
        }
        "oracle" | "oracle-c10" | "oracle-c11" | "oracle-c03" => {
            let only = sub.strip_prefix("oracle-");
            let seed: u64 = args[2].parse().unwrap();
            let n: usize = args[3].parse().unwrap();
            let tier = args.get(4).map(|s| s.as_str()).unwrap_or("quick");
            let mut stats = std::collections::BTreeMap::new();
            let mut nfail = 0u64;
            for i in 0..n {
                let c = gen_case(seed, i, tier, true);
                let mut fails = vec![];
                oracle_case(&c, &mut fails, &mut stats);
                let fails = filter_fails(fails, only);
                if !fails.is_empty() {
                    nfail += 1;
                    let mut buf: Vec<u8> = vec![];
                    print_fail(&c, &fails, &mut buf);
                    print!("{}", String::from_utf8(buf).unwrap());
                }
            }
            stats.insert("failing_cases".into(), nfail);
            let js: Vec<String> = stats.iter().map(|(k, v)| format!("\"{}\": {}", k, v)).collect();
            println!("STATS {{{}}}", js.join(", "));
        }
        "oracle-replay" | "oracle-replay-c10" | "oracle-replay-c11" | "oracle-replay-c03" => {
            let only = sub.strip_prefix("oracle-replay-");
            let cases = stdin_cases();
            let mut stats = std::collections::BTreeMap::new();
            for c in &cases {
                let mut fails = vec![];
                oracle_case(c, &mut fails, &mut stats);
                let fails = filter_fails(fails, only);
                let mut buf: Vec<u8> = vec![];
                print_fail(c, &fails, &mut buf);
                print!("{}", String::from_utf8(buf).unwrap());
            }
        }
        _ => {
            eprintln!("usage: h_mcast gen <seed> <n> [tier] | run | oracle <seed> <n> [tier] | oracle-replay");
            std::process::exit(2);
        }
    }
}
