//! Stream `glue` (property C03): ICMP error quoting lengths and the hop-by-hop option walk.
//! ops:  udp4 <n> | udp6 <n> | proto4 <n> | nxt6 <n> | hbh6 <l> <mc 0|1> <n> <unknown opt types ';'-separated or ->
//! obs:  err <quoted data len> <ip total len> | deliver <n> | none | PANIC
use smoltcp::iface::{Config, Interface, SocketSet, SocketStorage};
use smoltcp::phy::Medium;
use smoltcp::socket::udp;
use smoltcp::time::Instant;
use smoltcp::wire::*;
use std::io::Write;
use svh::dev::QDev;
use svh::*;

fn me6() -> Ipv6Address {
    Ipv6Address::new(0xfe80, 0, 0, 0, 0, 0, 0, 1)
}
fn peer6() -> Ipv6Address {
    Ipv6Address::new(0xfe80, 0, 0, 0, 0, 0, 0, 2)
}

fn v4_packet(proto: u8, payload: &[u8]) -> Vec<u8> {
    let ip = Ipv4Repr {
        src_addr: Ipv4Address::new(10, 0, 0, 2),
        dst_addr: Ipv4Address::new(10, 0, 0, 1),
        next_header: IpProtocol::from(proto),
        payload_len: payload.len(),
        hop_limit: 64,
    };
    let mut buf = vec![0u8; 20 + payload.len()];
    ip.emit(&mut Ipv4Packet::new_unchecked(&mut buf[..]), &Default::default());
    buf[20..].copy_from_slice(payload);
    buf
}

fn v6_packet(dst: Ipv6Address, nh: u8, payload: &[u8]) -> Vec<u8> {
    let ip = Ipv6Repr { src_addr: peer6(), dst_addr: dst, next_header: IpProtocol::from(nh), payload_len: payload.len(), hop_limit: 64 };
    let mut buf = vec![0u8; 40 + payload.len()];
    ip.emit(&mut Ipv6Packet::new_unchecked(&mut buf[..]));
    buf[40..].copy_from_slice(payload);
    buf
}

fn udp_bytes(src: IpAddress, dst: IpAddress, dport: u16, n: usize) -> Vec<u8> {
    let udp = UdpRepr { src_port: 4444, dst_port: dport };
    let mut b = vec![0u8; 8 + n];
    udp.emit(&mut UdpPacket::new_unchecked(&mut b[..]), &src, &dst, n, |p| p.iter_mut().enumerate().for_each(|(i, x)| *x = i as u8), &Default::default());
    b
}

fn run_op(op: &str) -> String {
    let t: Vec<&str> = op.split_whitespace().collect();
    let mut dev = QDev::new(Medium::Ip, 1500);
    let mut iface = Interface::new(Config::new(HardwareAddress::Ip), &mut dev, Instant::ZERO);
    iface.update_ip_addrs(|a| {
        a.push(IpCidr::new(IpAddress::v4(10, 0, 0, 1), 24)).unwrap();
        a.push(IpCidr::new(IpAddress::Ipv6(me6()), 64)).unwrap();
    });
    let mut storage = [SocketStorage::EMPTY, SocketStorage::EMPTY];
    let mut sockets = SocketSet::new(&mut storage[..]);
    let mut u = udp::Socket::new(
        udp::PacketBuffer::new(vec![udp::PacketMetadata::EMPTY; 2], vec![0; 4096]),
        udp::PacketBuffer::new(vec![udp::PacketMetadata::EMPTY; 2], vec![0; 4096]),
    );
    u.bind(7).unwrap();
    let h = sockets.add(u);
    let n: usize = t.last().map(|_| 0).unwrap_or(0);
    let _ = n;
    let (frame, v6) = match t[0] {
        "udp4" => {
            let n: usize = t[1].parse().unwrap();
            let (s, d) = (IpAddress::v4(10, 0, 0, 2), IpAddress::v4(10, 0, 0, 1));
            (v4_packet(17, &udp_bytes(s, d, 9999, n)), false)
        }
        "proto4" => {
            let n: usize = t[1].parse().unwrap();
            (v4_packet(253, &vec![0x5a; n]), false)
        }
        "udp6" => {
            let n: usize = t[1].parse().unwrap();
            let (s, d) = (IpAddress::Ipv6(peer6()), IpAddress::Ipv6(me6()));
            (v6_packet(me6(), 17, &udp_bytes(s, d, 9999, n)), true)
        }
        "nxt6" => {
            let n: usize = t[1].parse().unwrap();
            (v6_packet(me6(), 253, &vec![0x5a; n]), true)
        }
        "hbh6" => {
            let l: usize = t[1].parse().unwrap();
            let mc = t[2] == "1";
            let n: usize = t[3].parse().unwrap();
            let types: Vec<u8> = if t[4] == "-" { vec![] } else { t[4].split(';').map(|x| x.parse().unwrap()).collect() };
            let dst = if mc { Ipv6Address::new(0xff02, 0, 0, 0, 0, 0, 0, 1) } else { me6() };
            let hlen = (l + 1) * 8;
            let mut hdr = vec![0u8; hlen];
            hdr[0] = 17; // next header UDP
            hdr[1] = l as u8;
            // options area: hlen - 2 bytes: unknown options (2 bytes each, data len 0), then padding
            let mut o = 2;
            for ty in &types {
                if o + 2 <= hlen {
                    hdr[o] = *ty;
                    hdr[o + 1] = 0;
                    o += 2;
                }
            }
            let rem = hlen - o;
            if rem == 1 {
                hdr[o] = 0; // Pad1
            } else if rem >= 2 {
                hdr[o] = 1; // PadN
                hdr[o + 1] = (rem - 2) as u8;
            }
            let mut pl = hdr;
            pl.extend(udp_bytes(IpAddress::Ipv6(peer6()), IpAddress::Ipv6(dst), 7, n));
            (v6_packet(dst, 0, &pl), true)
        }
        x => panic!("bad op {}", x),
    };
    dev.rx.push_back(frame);
    iface.poll(Instant::from_millis(1), &mut dev, &mut sockets);
    let tx = dev.drain_tx();
    let s = sockets.get_mut::<udp::Socket>(h);
    if let Ok((data, _)) = s.recv() {
        return format!("deliver {}", data.len());
    }
    for f in tx {
        if v6 {
            if let Ok(p) = Ipv6Packet::new_checked(&f[..]) {
                if p.next_header() == IpProtocol::Icmpv6 {
                    let ic = p.payload();
                    // type 1 dst unreachable / type 4 param problem: 8 bytes header, then quoted header (40) + data
                    if ic.len() >= 48 && (ic[0] == 1 || ic[0] == 4) {
                        return format!("err {} {}", ic.len() - 48, f.len());
                    }
                }
            }
        } else if let Ok(p) = Ipv4Packet::new_checked(&f[..]) {
            if p.next_header() == IpProtocol::Icmp {
                let ic = p.payload();
                if ic.len() >= 28 && ic[0] == 3 {
                    return format!("err {} {}", ic.len() - 28, f.len());
                }
            }
        }
    }
    "none".to_string()
}

fn gen_case(rng: &mut Rng, id: String) -> Case {
    let mut ops = vec![];
    let sizes = |rng: &mut Rng, cut: i64| -> i64 {
        match rng.below(4) {
            0 => rng.range(0, 16),
            1 => rng.range((cut - 12).max(0), cut + 12),
            2 => rng.range(0, 1400),
            _ => *rng.pick(&[0i64, 1, 7, 8, cut - 8, cut, cut + 1, 1400]),
        }
    };
    for _ in 0..rng.range(2, 10) {
        match rng.below(5) {
            0 => ops.push(format!("udp4 {}", sizes(rng, 520).max(0))),
            1 => ops.push(format!("proto4 {}", sizes(rng, 528).max(0))),
            2 => ops.push(format!("udp6 {}", sizes(rng, 1184).max(0))),
            3 => ops.push(format!("nxt6 {}", sizes(rng, 1192).max(0))),
            _ => {
                let l = *rng.pick(&[0i64, 0, 1, 2, 5]);
                let nt = rng.below(4) as usize;
                let maxopts = (((l + 1) * 8 - 2) / 2) as usize;
                let types: Vec<String> = (0..nt.min(maxopts))
                    .map(|_| {
                        // unknown types only: avoid 0 (Pad1), 1 (PadN), 5 (router alert), 0x63 (RPL)
                        let fail = rng.below(4) * 64;
                        let low = *rng.pick(&[2u64, 3, 7, 30, 62]);
                        (fail + low).to_string()
                    })
                    .collect();
                let ts = if types.is_empty() { "-".to_string() } else { types.join(";") };
                ops.push(format!("hbh6 {} {} {} {}", l, rng.below(2), sizes(rng, 1192 - 8 - (l + 1) * 8).max(0), ts));
            }
        }
    }
    Case { id, cfg: vec![], ops }
}

fn main() {
    quiet_panics();
    let (sub, seed, n, _tier) = args();
    let stdout = std::io::stdout();
    let mut out = std::io::BufWriter::new(stdout.lock());
    match sub.as_str() {
        "gen" => {
            let mut rng = Rng::new(seed);
            for i in 0..n {
                gen_case(&mut rng, format!("s{}-{}", seed, i)).write(&mut out);
            }
        }
        "run" => {
            for c in stdin_cases() {
                writeln!(out, "case {}", c.id).ok();
                for op in &c.ops {
                    let o = op.clone();
                    let r = catch(move || run_op(&o)).unwrap_or_else(|| "PANIC".to_string());
                    writeln!(out, "{}", r).ok();
                }
            }
        }
        x => panic!("unknown subcommand {}", x),
    }
}
