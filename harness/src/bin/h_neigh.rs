//! Stream `neigh` (property C16): a real `Interface` on Medium::Ethernet (IPv4 + ARP, IPv6 + NDISC)
//! with UDP / ICMP / raw sockets sending to on-link and off-link destinations, driven by a script of
//! sends, injected ARP / NDISC / echo frames, route and address changes and polls.
//!
//! Case format (addresses hexadecimal: IP `4.<hex>` / `6.<hex>`, CIDR `<ip>/<len>`, hardware `<hex>`,
//! times in ms):
//!   case <id> med=eth hw=<hex> cap=<n> rcap=<n> qcap=<n> socks=<u|i|r...>
//!   addrs <cidr> [<cidr>]                          update_ip_addrs (flushes the neighbor cache)
//!   send <sock> <ip> <tag>                         enqueue one packet carrying <tag>
//!   arp <edst> <op> <sha> <spa> <tpa>              inject an ARP packet (eth src = sha)
//!   ip4 <edst> <esrc> <src> <dst>                  inject an ICMPv4 echo request
//!   ip6 <edst> <esrc> <src> <dst> <hop> echo | na <target> <ll|-> <ovr> | ns <target> <ll|->
//!   rtdef4 <ip> | rtdef6 <ip> | rtrmdef4 | rtrmdef6 | rtpush <cidr> <via> <exp ms|-> | rtrm <idx> | rtclear
//!   r154 <panok> <ldst> <lsrc> <src> <dst> <hop> echo | na .. | ns ..   (med=154: an 802.15.4 data frame with
//!        an IPHC-compressed IPv6 packet; hardware addresses: extended = 64-bit value, short s = 2^64 + s)
//!   sethw <hw>                                     Interface::set_hardware_addr (non-unicast: panics by contract)
//!   txb <n|->                                      device accepts n frames per poll from now on (- = unlimited)
//!   a trailing `bad4` / `badi` on ip4 / ip6 / r154 corrupts the ICMP / IPv4-header checksum
//!   case config ck=tx: the device verifies no receive checksum (ChecksumCapabilities Tx for every protocol)
//!   poll <ms>
//! Observations (every tx line ends with from=<sender hardware address>, which must also be the ARP sender /
//! NDISC link-layer option): `ok` (addrs), `rx` (frame queued), `ret <0|1>` (send / route ops), and per poll
//!   tx arpreq <eth dst> <target> | tx arprep <eth dst> <target> | tx ns <eth dst> <target>
//!   tx ip <eth dst> <ip dst> <tag>     (tag: socket packet tag, -1 echo reply, -2 neighbor advert)
//!   q <queued packets per socket>      pollat <ms|none>
use smoltcp::iface::{Config, Interface, Route, SocketHandle, SocketSet};
use smoltcp::phy::{Checksum, ChecksumCapabilities, Medium};
use smoltcp::socket::{icmp, raw, udp};
use smoltcp::storage::PacketMetadata;
use smoltcp::time::Instant;
use smoltcp::wire::*;
use std::collections::BTreeMap;
use std::io::Write;
use svh::dev::QDev;
use svh::*;

const OWN_HW: u64 = 0x0200_0000_0001;
const OWN_154: u64 = 0x0200_0000_0000_0001;
const PAYLOAD: usize = 16; // every socket payload: b"C16!" + tag (u32 BE) + 8 filler bytes
const ICMP_IN_IDENT: u16 = 0xee00;

// ---------- address helpers ----------

fn parse_ip(s: &str) -> IpAddress {
    let v = u128::from_str_radix(&s[2..], 16).expect("hex ip");
    if s.starts_with('4') {
        IpAddress::Ipv4(Ipv4Address::from_bits(v as u32))
    } else {
        IpAddress::Ipv6(Ipv6Address::from_bits(v))
    }
}
fn v4(s: &str) -> Ipv4Address {
    match parse_ip(s) {
        IpAddress::Ipv4(a) => a,
        _ => panic!("expected v4 {}", s),
    }
}
fn v6(s: &str) -> Ipv6Address {
    match parse_ip(s) {
        IpAddress::Ipv6(a) => a,
        _ => panic!("expected v6 {}", s),
    }
}
fn show_ip(a: &IpAddress) -> String {
    match a {
        IpAddress::Ipv4(x) => format!("4.{:x}", x.to_bits()),
        IpAddress::Ipv6(x) => format!("6.{:x}", x.to_bits()),
    }
}
fn parse_cidr(s: &str) -> IpCidr {
    let (a, l) = s.split_once('/').expect("cidr");
    IpCidr::new(parse_ip(a), l.parse().unwrap())
}
fn eth(v: u64) -> EthernetAddress {
    let b = v.to_be_bytes();
    EthernetAddress([b[2], b[3], b[4], b[5], b[6], b[7]])
}
fn parse_hw(s: &str) -> u64 {
    u64::from_str_radix(s, 16).expect("hex hw")
}
fn hw_val(a: &EthernetAddress) -> u64 {
    a.0.iter().fold(0u64, |acc, b| (acc << 8) | *b as u64)
}

const OWN_PAN: u16 = 0xbeef;

fn parse_hw128(s: &str) -> u128 {
    u128::from_str_radix(s, 16).expect("hex hw")
}
/// model encoding of an 802.15.4 address: extended = the 64-bit value, short s = 2^64 + s
fn ll154(v: u128) -> Ieee802154Address {
    if v >> 64 == 0 {
        Ieee802154Address::Extended((v as u64).to_be_bytes())
    } else {
        Ieee802154Address::Short((v as u16).to_be_bytes())
    }
}
fn ll154_val(a: &Ieee802154Address) -> u128 {
    match a {
        Ieee802154Address::Extended(b) => u64::from_be_bytes(*b) as u128,
        Ieee802154Address::Short(b) => (1u128 << 64) + u16::from_be_bytes(*b) as u128,
        Ieee802154Address::Absent => 1u128 << 65,
    }
}
fn ll154_raw(v: u128) -> RawHardwareAddress {
    match ll154(v) {
        Ieee802154Address::Extended(b) => RawHardwareAddress::from_bytes(&b),
        Ieee802154Address::Short(b) => RawHardwareAddress::from_bytes(&b),
        Ieee802154Address::Absent => RawHardwareAddress::from_bytes(&[]),
    }
}

/// observation line for a frame transmitted on 802.15.4 (None: MLD housekeeping)
fn classify154(frame: &[u8]) -> Option<String> {
    let f = Ieee802154Frame::new_checked(frame).expect("154 frame");
    let r = Ieee802154Repr::parse(&f).expect("154 repr");
    let hw = ll154_val(&r.dst_addr.unwrap_or(Ieee802154Address::Absent));
    let src = ll154_val(&r.src_addr.unwrap_or(Ieee802154Address::Absent));
    let pl = f.payload().expect("154 payload");
    match SixlowpanPacket::dispatch(pl).expect("6lowpan dispatch") {
        SixlowpanPacket::IphcHeader => {}
        SixlowpanPacket::FragmentHeader => return Some(format!("tx frag {:x} from={:x}", hw, src)),
    }
    classify154_body(&f, &r, hw).map(|l| format!("{} from={}", l.0, match l.1 {
        Some(x) if x != src => format!("MISMATCH:{:x}/{:x}", src, x),
        _ => format!("{:x}", src),
    }))
}

/// (observation line, NDISC link-layer option if any)
fn classify154_body(f: &Ieee802154Frame<&[u8]>, r: &Ieee802154Repr, hw: u128) -> Option<(String, Option<u128>)> {
    let pl = f.payload().expect("154 payload");
    let ip = SixlowpanIphcPacket::new_checked(pl).expect("iphc");
    let ir = SixlowpanIphcRepr::parse(&ip, r.src_addr, r.dst_addr, &[]).expect("iphc repr");
    let dst = IpAddress::Ipv6(ir.dst_addr);
    let body = ip.payload();
    let line = |s: String| Some((s, None));
    match ir.next_header {
        SixlowpanNextHeader::Compressed => match SixlowpanNhcPacket::dispatch(body).expect("nhc") {
            SixlowpanNhcPacket::UdpHeader => {
                let u = SixlowpanUdpNhcPacket::new_checked(body).expect("udp nhc");
                line(format!("tx ip {:x} {} {}", hw, show_ip(&dst), tag_of(u.payload())))
            }
            SixlowpanNhcPacket::ExtHeader => None, // hop-by-hop + MLD report
        },
        SixlowpanNextHeader::Uncompressed(IpProtocol::Icmpv6) => {
            let ic = Icmpv6Packet::new_checked(body).expect("icmpv6");
            let opt = match NdiscRepr::parse(&ic) {
                Ok(NdiscRepr::NeighborSolicit { lladdr: Some(l), .. }) | Ok(NdiscRepr::NeighborAdvert { lladdr: Some(l), .. }) => {
                    Some(l.as_bytes().iter().fold(0u128, |a, b| (a << 8) | *b as u128))
                }
                _ => None,
            };
            match ic.msg_type() {
                Icmpv6Message::NeighborSolicit => {
                    Some((format!("tx ns {:x} {}", hw, show_ip(&IpAddress::Ipv6(ic.target_addr()))), opt))
                }
                Icmpv6Message::NeighborAdvert => Some((format!("tx ip {:x} {} -2", hw, show_ip(&dst)), opt)),
                Icmpv6Message::EchoReply => line(format!("tx ip {:x} {} -1", hw, show_ip(&dst))),
                Icmpv6Message::EchoRequest => line(format!("tx ip {:x} {} {}", hw, show_ip(&dst), tag_of(&body[8..]))),
                Icmpv6Message::MldReport | Icmpv6Message::MldQuery => None,
                _ => line(format!("tx ip {:x} {} -9", hw, show_ip(&dst))),
            }
        }
        SixlowpanNextHeader::Uncompressed(_) => line(format!("tx ip {:x} {} {}", hw, show_ip(&dst), tag_of(body))),
    }
}

fn payload(tag: u32) -> Vec<u8> {
    let mut p = b"C16!".to_vec();
    p.extend_from_slice(&tag.to_be_bytes());
    p.extend_from_slice(&[0x5a; PAYLOAD - 8]);
    p
}
fn tag_of(p: &[u8]) -> i64 {
    if p.len() >= 8 && &p[0..4] == b"C16!" {
        u32::from_be_bytes([p[4], p[5], p[6], p[7]]) as i64
    } else {
        -9
    }
}

// ---------- the world ----------

struct World {
    dev: QDev,
    iface: Interface,
    sockets: SocketSet<'static>,
    handles: Vec<(char, SocketHandle)>,
    qcap: usize,
    /// raw sockets have no send_queue(): accepted minus transmitted, maintained from the wire
    raw_q: Vec<i64>,
    tag_sock: BTreeMap<i64, usize>,
    is154: bool,
    /// frames the device accepts per poll
    txb: Option<usize>,
    /// sender of each frame returned by the last `poll`
    last_from: Vec<String>,
}

/// One frame the interface put on the wire, reduced to what the property talks about.
#[derive(Clone, Debug, PartialEq)]
enum Tx {
    ArpReq { hw: u64, target: IpAddress },
    ArpRep { hw: u64, target: IpAddress },
    Ns { hw: u64, target: IpAddress },
    Ip { hw: u64, dst: IpAddress, tag: i64 },
    /// IGMP / MLD housekeeping (multicast destination), not part of the compared stream
    Other { hw: u64, dst: IpAddress },
}

/// sender of a transmitted Ethernet frame; the ARP sender hardware address / NDISC link-layer
/// option must agree with the Ethernet source
fn sender_eth(frame: &[u8]) -> String {
    let f = EthernetFrame::new_checked(frame).expect("tx frame");
    let src = hw_val(&f.src_addr());
    let mut inner: Option<u64> = None;
    match f.ethertype() {
        EthernetProtocol::Arp => {
            if let Ok(ArpRepr::EthernetIpv4 { source_hardware_addr, .. }) = ArpPacket::new_checked(f.payload()).and_then(|p| ArpRepr::parse(&p)) {
                inner = Some(hw_val(&source_hardware_addr));
            }
        }
        EthernetProtocol::Ipv6 => {
            if let Ok(p) = Ipv6Packet::new_checked(f.payload()) {
                if p.next_header() == IpProtocol::Icmpv6 {
                    if let Ok(ic) = Icmpv6Packet::new_checked(p.payload()) {
                        if matches!(ic.msg_type(), Icmpv6Message::NeighborSolicit | Icmpv6Message::NeighborAdvert) {
                            if let Ok(NdiscRepr::NeighborSolicit { lladdr: Some(l), .. }) | Ok(NdiscRepr::NeighborAdvert { lladdr: Some(l), .. }) = NdiscRepr::parse(&ic) {
                                inner = Some(l.as_bytes().iter().fold(0u64, |a, b| (a << 8) | *b as u64));
                            }
                        }
                    }
                }
            }
        }
        _ => {}
    }
    match inner {
        Some(x) if x != src => format!("MISMATCH:{:x}/{:x}", src, x),
        _ => format!("{:x}", src),
    }
}

fn classify(frame: &[u8]) -> Tx {
    let f = EthernetFrame::new_checked(frame).expect("tx frame");
    let hw = hw_val(&f.dst_addr());
    match f.ethertype() {
        EthernetProtocol::Arp => {
            let p = ArpPacket::new_checked(f.payload()).expect("arp");
            match ArpRepr::parse(&p).expect("arp repr") {
                ArpRepr::EthernetIpv4 { operation, target_protocol_addr, .. } => {
                    let target = IpAddress::Ipv4(target_protocol_addr);
                    if operation == ArpOperation::Request {
                        Tx::ArpReq { hw, target }
                    } else {
                        Tx::ArpRep { hw, target }
                    }
                }
                #[allow(unreachable_patterns)]
                _ => panic!("arp kind"),
            }
        }
        EthernetProtocol::Ipv4 => {
            let p = Ipv4Packet::new_checked(f.payload()).expect("ipv4");
            let dst = IpAddress::Ipv4(p.dst_addr());
            let pl = p.payload();
            match p.next_header() {
                IpProtocol::Udp => Tx::Ip { hw, dst, tag: tag_of(&pl[8..]) },
                IpProtocol::Icmp => {
                    let ic = Icmpv4Packet::new_checked(pl).expect("icmp");
                    match ic.msg_type() {
                        Icmpv4Message::EchoReply => Tx::Ip { hw, dst, tag: -1 },
                        Icmpv4Message::EchoRequest => Tx::Ip { hw, dst, tag: tag_of(ic.data()) },
                        _ => Tx::Ip { hw, dst, tag: -9 },
                    }
                }
                IpProtocol::Igmp => Tx::Other { hw, dst },
                _ => Tx::Ip { hw, dst, tag: tag_of(pl) },
            }
        }
        EthernetProtocol::Ipv6 => {
            let p = Ipv6Packet::new_checked(f.payload()).expect("ipv6");
            let dst = IpAddress::Ipv6(p.dst_addr());
            let pl = p.payload();
            match p.next_header() {
                IpProtocol::Udp => Tx::Ip { hw, dst, tag: tag_of(&pl[8..]) },
                IpProtocol::Icmpv6 => {
                    let ic = Icmpv6Packet::new_checked(pl).expect("icmpv6");
                    match ic.msg_type() {
                        Icmpv6Message::NeighborSolicit => Tx::Ns { hw, target: IpAddress::Ipv6(ic.target_addr()) },
                        Icmpv6Message::NeighborAdvert => Tx::Ip { hw, dst, tag: -2 },
                        Icmpv6Message::EchoReply => Tx::Ip { hw, dst, tag: -1 },
                        Icmpv6Message::EchoRequest => Tx::Ip { hw, dst, tag: tag_of(&pl[8..]) },
                        Icmpv6Message::MldReport | Icmpv6Message::MldQuery => Tx::Other { hw, dst },
                        _ => Tx::Ip { hw, dst, tag: -9 },
                    }
                }
                IpProtocol::HopByHop => Tx::Other { hw, dst },
                _ => Tx::Ip { hw, dst, tag: tag_of(pl) },
            }
        }
        _ => panic!("unexpected ethertype"),
    }
}

impl World {
    fn new(c: &Case) -> World {
        let is154 = c.get("med") == Some("154");
        let mut dev = if is154 { QDev::new(Medium::Ieee802154, 127) } else { QDev::new(Medium::Ethernet, 1514) };
        let hwv = parse_hw128(c.get("hw").unwrap_or("020000000001"));
        let mut cfg = if is154 {
            Config::new(HardwareAddress::Ieee802154(ll154(hwv)))
        } else {
            Config::new(HardwareAddress::Ethernet(eth(hwv as u64)))
        };
        if is154 {
            cfg.pan_id = Some(Ieee802154Pan(OWN_PAN));
        }
        if c.get("ck") == Some("tx") {
            let mut ck = ChecksumCapabilities::default();
            ck.ipv4 = Checksum::Tx;
            ck.udp = Checksum::Tx;
            ck.tcp = Checksum::Tx;
            ck.icmpv4 = Checksum::Tx;
            ck.icmpv6 = Checksum::Tx;
            dev.checksum = ck;
        }
        cfg.random_seed = 0x1234_5678;
        let iface = Interface::new(cfg, &mut dev, Instant::ZERO);
        let qcap = c.get_i("qcap", 4) as usize;
        let mut sockets = SocketSet::new(vec![]);
        let mut handles = vec![];
        for (k, ch) in c.get("socks").unwrap_or("u").chars().enumerate() {
            let h = match ch {
                'u' => {
                    let rx = udp::PacketBuffer::new(vec![udp::PacketMetadata::EMPTY; 4], vec![0u8; 1024]);
                    let tx = udp::PacketBuffer::new(vec![udp::PacketMetadata::EMPTY; qcap], vec![0u8; 65536]);
                    let mut s = udp::Socket::new(rx, tx);
                    s.bind(4000 + k as u16).unwrap();
                    sockets.add(s)
                }
                'i' => {
                    let rx = icmp::PacketBuffer::new(vec![icmp::PacketMetadata::EMPTY; 4], vec![0u8; 1024]);
                    let tx = icmp::PacketBuffer::new(vec![icmp::PacketMetadata::EMPTY; qcap], vec![0u8; 65536]);
                    let mut s = icmp::Socket::new(rx, tx);
                    s.bind(icmp::Endpoint::Ident(0x4100 + k as u16)).unwrap();
                    sockets.add(s)
                }
                _ => {
                    let rx = raw::PacketBuffer::new(vec![PacketMetadata::EMPTY; 4], vec![0u8; 1024]);
                    let tx = raw::PacketBuffer::new(vec![PacketMetadata::EMPTY; qcap], vec![0u8; 65536]);
                    sockets.add(raw::Socket::new(None, Some(IpProtocol::Unknown(254)), rx, tx))
                }
            };
            handles.push((ch, h));
        }
        let n = handles.len();
        World { dev, iface, sockets, handles, qcap, raw_q: vec![0; n], tag_sock: BTreeMap::new(), is154, txb: None, last_from: vec![] }
    }

    fn send(&mut self, k: usize, dst: IpAddress, tag: u32) -> bool {
        if k >= self.handles.len() {
            return false;
        }
        let (ch, h) = self.handles[k];
        let pl = payload(tag);
        let ok = match ch {
            'u' => self.sockets.get_mut::<udp::Socket>(h).send_slice(&pl, (dst, 9000)).is_ok(),
            'i' => {
                let ident = 0x4100 + k as u16;
                let mut buf = vec![0u8; 8 + PAYLOAD];
                match dst {
                    IpAddress::Ipv4(_) => {
                        let r = Icmpv4Repr::EchoRequest { ident, seq_no: tag as u16, data: &pl };
                        r.emit(&mut Icmpv4Packet::new_unchecked(&mut buf[..]), &ChecksumCapabilities::default());
                    }
                    IpAddress::Ipv6(d) => {
                        let r = Icmpv6Repr::EchoRequest { ident, seq_no: tag as u16, data: &pl };
                        r.emit(
                            &Ipv6Address::UNSPECIFIED,
                            &d,
                            &mut Icmpv6Packet::new_unchecked(&mut buf[..]),
                            &ChecksumCapabilities::default(),
                        );
                    }
                }
                self.sockets.get_mut::<icmp::Socket>(h).send_slice(&buf, dst).is_ok()
            }
            _ => {
                let buf = match dst {
                    IpAddress::Ipv4(d) => {
                        let r = Ipv4Repr {
                            src_addr: Ipv4Address::new(10, 0, 0, 1),
                            dst_addr: d,
                            next_header: IpProtocol::Unknown(254),
                            payload_len: PAYLOAD,
                            hop_limit: 64,
                        };
                        let mut b = vec![0u8; 20 + PAYLOAD];
                        r.emit(&mut Ipv4Packet::new_unchecked(&mut b[..]), &ChecksumCapabilities::default());
                        b[20..].copy_from_slice(&pl);
                        b
                    }
                    IpAddress::Ipv6(d) => {
                        let r = Ipv6Repr {
                            src_addr: Ipv6Address::new(0xfe80, 0, 0, 0, 0, 0, 0, 1),
                            dst_addr: d,
                            next_header: IpProtocol::Unknown(254),
                            payload_len: PAYLOAD,
                            hop_limit: 64,
                        };
                        let mut b = vec![0u8; 40 + PAYLOAD];
                        r.emit(&mut Ipv6Packet::new_unchecked(&mut b[..]));
                        b[40..].copy_from_slice(&pl);
                        b
                    }
                };
                let ok = self.sockets.get_mut::<raw::Socket>(h).send_slice(&buf).is_ok();
                if ok {
                    self.raw_q[k] += 1;
                }
                ok
            }
        };
        if ok {
            self.tag_sock.insert(tag as i64, k);
        }
        ok
    }

    fn qlens(&mut self) -> Vec<i64> {
        let mut v = vec![];
        for (k, (ch, h)) in self.handles.clone().into_iter().enumerate() {
            v.push(match ch {
                'u' => (self.sockets.get::<udp::Socket>(h).send_queue() / PAYLOAD) as i64,
                'i' => (self.sockets.get::<icmp::Socket>(h).send_queue() / (8 + PAYLOAD)) as i64,
                _ => {
                    // cross-check the derived count against the only public observable
                    let can = self.sockets.get::<raw::Socket>(h).can_send();
                    if can != ((self.raw_q[k] as usize) < self.qcap) {
                        -100 - self.raw_q[k]
                    } else {
                        self.raw_q[k]
                    }
                }
            });
        }
        v
    }

    fn inject(&mut self, t: &[&str]) {
        let frame = build_rx(t);
        self.dev.rx.push_back(frame);
    }

    fn poll(&mut self, ms: i64) -> Vec<Tx> {
        let now = Instant::from_millis(ms);
        self.iface.poll(now, &mut self.dev, &mut self.sockets);
        let mut out = vec![];
        self.last_from.clear();
        for f in self.dev.drain_tx() {
            let tx = classify(&f);
            self.last_from.push(sender_eth(&f));
            if let Tx::Ip { tag, .. } = &tx {
                if let Some(k) = self.tag_sock.get(tag) {
                    if self.handles[*k].0 == 'r' {
                        self.raw_q[*k] -= 1;
                    }
                }
            }
            out.push(tx);
        }
        out
    }

    /// 802.15.4: observation lines directly (no oracle on this medium)
    fn poll154(&mut self, ms: i64) -> Vec<String> {
        self.dev.tx_budget = self.txb;
        let now = Instant::from_millis(ms);
        self.iface.poll(now, &mut self.dev, &mut self.sockets);
        self.dev.drain_tx().iter().filter_map(|f| classify154(f)).collect()
    }

    fn poll_at(&mut self, ms: i64) -> Option<i64> {
        self.iface.poll_at(Instant::from_millis(ms), &self.sockets).map(|i| i.total_millis())
    }

    /// route / address operations; Some(ret) for ops that report a result
    fn admin(&mut self, t: &[&str]) -> Option<i64> {
        match t[0] {
            "addrs" => {
                let cs: Vec<IpCidr> = t[1..].iter().map(|s| parse_cidr(s)).collect();
                self.iface.update_ip_addrs(|a| {
                    a.clear();
                    for c in &cs {
                        a.push(*c).unwrap();
                    }
                });
                None
            }
            "rtdef4" => Some(self.iface.routes_mut().add_default_ipv4_route(v4(t[1])).is_ok() as i64),
            "rtdef6" => Some(self.iface.routes_mut().add_default_ipv6_route(v6(t[1])).is_ok() as i64),
            "rtrmdef4" => {
                self.iface.routes_mut().remove_default_ipv4_route();
                Some(1)
            }
            "rtrmdef6" => {
                self.iface.routes_mut().remove_default_ipv6_route();
                Some(1)
            }
            "rtpush" => {
                let r = Route {
                    cidr: parse_cidr(t[1]),
                    via_router: parse_ip(t[2]),
                    preferred_until: None,
                    expires_at: if t[3] == "-" { None } else { Some(Instant::from_millis(t[3].parse::<i64>().unwrap())) },
                };
                let mut ok = false;
                self.iface.routes_mut().update(|v| ok = v.push(r).is_ok());
                Some(ok as i64)
            }
            "rtrm" => {
                let idx: usize = t[1].parse().unwrap();
                self.iface.routes_mut().update(|v| {
                    if idx < v.len() {
                        v.remove(idx);
                    }
                });
                Some(1)
            }
            "rtclear" => {
                self.iface.routes_mut().update(|v| v.clear());
                Some(1)
            }
            "sethw" => {
                let v = parse_hw128(t[1]);
                let a = if self.is154 { HardwareAddress::Ieee802154(ll154(v)) } else { HardwareAddress::Ethernet(eth(v as u64)) };
                self.iface.set_hardware_addr(a);
                Some(1)
            }
            "txb" => {
                self.txb = if t[1] == "-" { None } else { Some(t[1].parse().unwrap()) };
                Some(1)
            }
            x => panic!("bad admin op {}", x),
        }
    }
}

fn build_rx(t0: &[&str]) -> Vec<u8> {
    let bad = match t0.last() {
        Some(&"bad4") => 4,
        Some(&"badi") => 1,
        _ => 0,
    };
    let t = if bad != 0 { &t0[..t0.len() - 1] } else { t0 };
    let (mut b, l4) = build_rx_good(t);
    if bad == 4 {
        b[l4 + 2] ^= 0x55; // ICMPv4 / ICMPv6 checksum field
        b[l4 + 3] ^= 0xaa;
    } else if bad == 1 && t[0] == "ip4" {
        b[14 + 10] ^= 0x55; // IPv4 header checksum
    }
    b
}

/// the frame and the offset of its ICMP header (0 for ARP)
fn build_rx_good(t: &[&str]) -> (Vec<u8>, usize) {
    let caps = ChecksumCapabilities::default();
    match t[0] {
        "arp" => {
            let (edst, op, sha, spa, tpa) = (parse_hw(t[1]), t[2].parse::<u16>().unwrap(), parse_hw(t[3]), v4(t[4]), v4(t[5]));
            let arp = ArpRepr::EthernetIpv4 {
                operation: match op {
                    1 => ArpOperation::Request,
                    2 => ArpOperation::Reply,
                    x => ArpOperation::Unknown(x),
                },
                source_hardware_addr: eth(sha),
                source_protocol_addr: spa,
                target_hardware_addr: eth(OWN_HW),
                target_protocol_addr: tpa,
            };
            let mut b = vec![0u8; 14 + arp.buffer_len()];
            let mut f = EthernetFrame::new_unchecked(&mut b[..]);
            f.set_dst_addr(eth(edst));
            f.set_src_addr(eth(sha));
            f.set_ethertype(EthernetProtocol::Arp);
            arp.emit(&mut ArpPacket::new_unchecked(f.payload_mut()));
            (b, 0)
        }
        "ip4" => {
            let (edst, esrc, src, dst) = (parse_hw(t[1]), parse_hw(t[2]), v4(t[3]), v4(t[4]));
            let icmp = Icmpv4Repr::EchoRequest { ident: ICMP_IN_IDENT, seq_no: 1, data: b"ping" };
            let ip = Ipv4Repr { src_addr: src, dst_addr: dst, next_header: IpProtocol::Icmp, payload_len: icmp.buffer_len(), hop_limit: 64 };
            let mut b = vec![0u8; 14 + 20 + icmp.buffer_len()];
            let mut f = EthernetFrame::new_unchecked(&mut b[..]);
            f.set_dst_addr(eth(edst));
            f.set_src_addr(eth(esrc));
            f.set_ethertype(EthernetProtocol::Ipv4);
            let mut p = Ipv4Packet::new_unchecked(f.payload_mut());
            ip.emit(&mut p, &caps);
            icmp.emit(&mut Icmpv4Packet::new_unchecked(p.payload_mut()), &caps);
            (b, 14 + 20)
        }
        "ip6" => {
            let (edst, esrc, src, dst, hop) = (parse_hw(t[1]), parse_hw(t[2]), v6(t[3]), v6(t[4]), t[5].parse::<u8>().unwrap());
            let ll = |s: &str| -> Option<RawHardwareAddress> {
                if s == "-" {
                    None
                } else {
                    Some(RawHardwareAddress::from_bytes(&eth(parse_hw(s)).0))
                }
            };
            let icmp = match t[6] {
                "echo" => Icmpv6Repr::EchoRequest { ident: ICMP_IN_IDENT, seq_no: 1, data: b"ping" },
                "na" => Icmpv6Repr::Ndisc(NdiscRepr::NeighborAdvert {
                    flags: if t[9] == "1" { NdiscNeighborFlags::OVERRIDE | NdiscNeighborFlags::SOLICITED } else { NdiscNeighborFlags::SOLICITED },
                    target_addr: v6(t[7]),
                    lladdr: ll(t[8]),
                }),
                "ns" => Icmpv6Repr::Ndisc(NdiscRepr::NeighborSolicit { target_addr: v6(t[7]), lladdr: ll(t[8]) }),
                x => panic!("bad ip6 kind {}", x),
            };
            let ip = Ipv6Repr { src_addr: src, dst_addr: dst, next_header: IpProtocol::Icmpv6, payload_len: icmp.buffer_len(), hop_limit: hop };
            let mut b = vec![0u8; 14 + 40 + icmp.buffer_len()];
            let mut f = EthernetFrame::new_unchecked(&mut b[..]);
            f.set_dst_addr(eth(edst));
            f.set_src_addr(eth(esrc));
            f.set_ethertype(EthernetProtocol::Ipv6);
            let mut p = Ipv6Packet::new_unchecked(f.payload_mut());
            ip.emit(&mut p);
            icmp.emit(&src, &dst, &mut Icmpv6Packet::new_unchecked(p.payload_mut()), &caps);
            (b, 14 + 40)
        }
        "r154" => {
            let (panok, ldst, lsrc, src, dst, hop) =
                (t[1] == "1", parse_hw128(t[2]), parse_hw128(t[3]), v6(t[4]), v6(t[5]), t[6].parse::<u8>().unwrap());
            let icmp = match t[7] {
                "echo" => Icmpv6Repr::EchoRequest { ident: ICMP_IN_IDENT, seq_no: 1, data: b"ping" },
                "na" => Icmpv6Repr::Ndisc(NdiscRepr::NeighborAdvert {
                    flags: if t[10] == "1" { NdiscNeighborFlags::OVERRIDE | NdiscNeighborFlags::SOLICITED } else { NdiscNeighborFlags::SOLICITED },
                    target_addr: v6(t[8]),
                    lladdr: if t[9] == "-" { None } else { Some(ll154_raw(parse_hw128(t[9]))) },
                }),
                "ns" => Icmpv6Repr::Ndisc(NdiscRepr::NeighborSolicit {
                    target_addr: v6(t[8]),
                    lladdr: if t[9] == "-" { None } else { Some(ll154_raw(parse_hw128(t[9]))) },
                }),
                x => panic!("bad r154 kind {}", x),
            };
            let pan = Ieee802154Pan(if panok { if ldst == (1u128 << 64) + 0xffff { 0xffff } else { OWN_PAN } } else { 0x1234 });
            let ieee = Ieee802154Repr {
                frame_type: Ieee802154FrameType::Data,
                security_enabled: false,
                frame_pending: false,
                ack_request: false,
                sequence_number: Some(7),
                pan_id_compression: true,
                frame_version: Ieee802154FrameVersion::Ieee802154_2003,
                dst_pan_id: Some(pan),
                dst_addr: Some(ll154(ldst)),
                src_pan_id: Some(pan),
                src_addr: Some(ll154(lsrc)),
            };
            let iphc = SixlowpanIphcRepr {
                src_addr: src,
                ll_src_addr: Some(ll154(lsrc)),
                dst_addr: dst,
                ll_dst_addr: Some(ll154(ldst)),
                next_header: SixlowpanNextHeader::Uncompressed(IpProtocol::Icmpv6),
                hop_limit: hop,
                ecn: None,
                dscp: None,
                flow_label: None,
            };
            let mut b = vec![0u8; ieee.buffer_len() + iphc.buffer_len() + icmp.buffer_len()];
            let (h, rest) = b.split_at_mut(ieee.buffer_len());
            ieee.emit(&mut Ieee802154Frame::new_unchecked(h));
            let (ih, body) = rest.split_at_mut(iphc.buffer_len());
            iphc.emit(&mut SixlowpanIphcPacket::new_unchecked(ih));
            icmp.emit(&src, &dst, &mut Icmpv6Packet::new_unchecked(body), &caps);
            let l4 = ieee.buffer_len() + iphc.buffer_len();
            (b, l4)
        }
        x => panic!("bad rx op {}", x),
    }
}

fn show_tx(tx: &Tx) -> Option<String> {
    match tx {
        Tx::ArpReq { hw, target } => Some(format!("tx arpreq {:x} {}", hw, show_ip(target))),
        Tx::ArpRep { hw, target } => Some(format!("tx arprep {:x} {}", hw, show_ip(target))),
        Tx::Ns { hw, target } => Some(format!("tx ns {:x} {}", hw, show_ip(target))),
        Tx::Ip { hw, dst, tag } => Some(format!("tx ip {:x} {} {}", hw, show_ip(dst), tag)),
        Tx::Other { .. } => None,
    }
}

fn run_case(c: &Case, out: &mut dyn Write) {
    writeln!(out, "case {}", c.id).unwrap();
    let mut w = World::new(c);
    for op in &c.ops {
        let t: Vec<&str> = op.split_whitespace().collect();
        let r = catch(std::panic::AssertUnwindSafe(|| -> Vec<String> {
            let mut lines = vec![];
            match t[0] {
                "send" => {
                    let ok = w.send(t[1].parse().unwrap(), parse_ip(t[2]), t[3].parse().unwrap());
                    lines.push(format!("ret {}", ok as i64));
                }
                "arp" | "ip4" | "ip6" | "r154" => {
                    w.inject(&t);
                    lines.push("rx".into());
                }
                "poll" => {
                    let ms: i64 = t[1].parse().unwrap();
                    if w.is154 {
                        lines.extend(w.poll154(ms));
                    } else {
                        w.dev.tx_budget = w.txb;
                        let txs = w.poll(ms);
                        for (k, tx) in txs.iter().enumerate() {
                            if let Some(s) = show_tx(tx) {
                                lines.push(format!("{} from={}", s, w.last_from[k]));
                            }
                        }
                    }
                    let q: Vec<String> = w.qlens().iter().map(|x| format!(" {}", x)).collect();
                    lines.push(format!("q{}", q.join("")));
                    lines.push(match w.poll_at(ms) {
                        Some(t) => format!("pollat {}", t),
                        None => "pollat none".into(),
                    });
                }
                _ => match w.admin(&t) {
                    Some(r) => lines.push(format!("ret {}", r)),
                    None => lines.push("ok".into()),
                },
            }
            lines
        }));
        match r {
            Some(lines) => {
                for l in lines {
                    writeln!(out, "{}", l).unwrap();
                }
            }
            None => {
                writeln!(out, "PANIC").unwrap();
                return;
            }
        }
    }
}

// ---------- generator ----------

struct Plan {
    addrs: Vec<String>,
    v4: bool,
    v6: bool,
}

fn ip4(a: u8, b: u8, c: u8, d: u8) -> String {
    format!("4.{:x}", u32::from_be_bytes([a, b, c, d]))
}
fn ip6(hi: u64, lo: u64) -> String {
    format!("6.{:x}", ((hi as u128) << 64) | lo as u128)
}
const LL: u64 = 0xfe80_0000_0000_0000;
const GU: u64 = 0x2001_0db8_0000_0000;

fn plans(rng: &mut Rng) -> Plan {
    match rng.below(10) {
        0..=4 => Plan { addrs: vec![format!("{}/24", ip4(10, 0, 0, 1)), format!("{}/64", ip6(LL, 1))], v4: true, v6: true },
        5 => Plan { addrs: vec![format!("{}/24", ip4(10, 0, 0, 1)), format!("{}/16", ip4(10, 1, 0, 1))], v4: true, v6: false },
        6 => Plan { addrs: vec![format!("{}/64", ip6(LL, 1)), format!("{}/64", ip6(GU, 1))], v4: false, v6: true },
        7 => Plan { addrs: vec![format!("{}/30", ip4(10, 0, 0, 1)), format!("{}/64", ip6(GU, 1))], v4: true, v6: true },
        8 => Plan { addrs: vec![format!("{}/24", ip4(10, 0, 0, 1))], v4: true, v6: false },
        _ => Plan { addrs: vec![format!("{}/120", ip6(LL, 1)), format!("{}/8", ip4(10, 0, 0, 1))], v4: true, v6: true },
    }
}

/// hardware address of neighbor number n (variant v: 0 genuine, 1 changed/spoofed)
fn nhw(n: u64, v: u64) -> String {
    format!("{:x}", 0x0200_0000_0100u64 + (v << 16) + n)
}

struct Gen<'a> {
    rng: &'a mut Rng,
    now: i64,
    /// recent destinations / discovery targets, to answer them
    recent4: Vec<u8>,
    recent6: Vec<u64>,
    last_req: i64,
    last_fill: i64,
    tag: u32,
    nsock: usize,
    /// current / previous own hardware address (sethw)
    cur_hw: u64,
    old_hw: Option<u64>,
}

impl<'a> Gen<'a> {
    fn host4(&mut self) -> (String, u64) {
        // on-link hosts 2..=20 (more than the 8 cache slots), biased to a few so that entries are reused
        let n = if self.rng.chance(1, 2) { self.rng.range(2, 5) } else { self.rng.range(2, 20) } as u8;
        (ip4(10, 0, 0, n), n as u64)
    }
    fn host6(&mut self) -> (String, u64) {
        let n = if self.rng.chance(1, 2) { self.rng.range(2, 5) } else { self.rng.range(2, 20) } as u64;
        (ip6(LL, n), n)
    }
    fn dst(&mut self, p: &Plan) -> String {
        let use4 = if p.v4 && p.v6 { self.rng.chance(1, 2) } else { p.v4 };
        let k = self.rng.below(100);
        if use4 {
            match k {
                0..=49 => {
                    let (a, n) = self.host4();
                    self.recent4.push(n as u8);
                    a
                }
                50..=59 => ip4(10, 1, 0, self.rng.range(2, 6) as u8),
                60..=79 => self.rng.pick(&[ip4(10, 9, 0, 5), ip4(172, 16, 0, 9), ip4(8, 8, 8, 8), ip4(10, 0, 1, 7)]).clone(),
                80..=84 => self.rng.pick(&[ip4(10, 0, 0, 254), ip4(10, 0, 0, 253)]).clone(),
                85 => ip4(0, 0, 0, 0),
                86..=87 => ip4(255, 255, 255, 255),
                88..=90 => self.rng.pick(&[ip4(10, 0, 0, 255), ip4(10, 0, 0, 3), ip4(10, 1, 255, 255)]).clone(),
                91..=94 => self.rng.pick(&[ip4(224, 0, 0, 251), ip4(224, 0, 0, 1), ip4(239, 129, 2, 3)]).clone(),
                _ => ip4(10, 0, 0, 1),
            }
        } else {
            match k {
                0..=49 => {
                    let (a, n) = self.host6();
                    self.recent6.push(n);
                    a
                }
                50..=59 => ip6(GU, self.rng.range(2, 6) as u64),
                60..=79 => self.rng.pick(&[ip6(GU + 0xffff, 5), ip6(0x2600_0000_0000_0000, 1), ip6(LL + 1, 7)]).clone(),
                80..=84 => self.rng.pick(&[ip6(LL, 0xfe), ip6(GU, 0xfe)]).clone(),
                85 => ip6(0, 0),
                86..=92 => self.rng.pick(&[ip6(0xff02_0000_0000_0000, 1), ip6(0xff02_0000_0000_0000, 0xfb), ip6(0xff05_0000_0000_0000, 0x1_0003)]).clone(),
                _ => ip6(LL, 1),
            }
        }
    }
    fn advance(&mut self) {
        let d = match self.rng.below(20) {
            0..=2 => 0,
            3..=6 => self.rng.range(1, 60),
            7..=9 => self.rng.range(100, 900),
            10..=11 => (self.last_req + 1000 + self.rng.range(-1, 1) - self.now).max(0),
            12 => 1000,
            13 => self.rng.range(990, 1010),
            14..=15 => (self.last_fill + 60000 + self.rng.range(-1, 1) - self.now).max(0),
            16 => self.rng.range(58000, 62000),
            17 => self.rng.range(1500, 5000),
            18 => self.rng.range(10000, 50000),
            _ => 120000,
        };
        self.now += d;
    }
    fn edst(&mut self) -> String {
        match self.rng.below(9) {
            0 => "ffffffffffff".into(),
            1 => match self.old_hw {
                Some(h) if self.rng.chance(2, 3) => format!("{:x}", h), // our address before the last sethw
                _ => "20000000099".into(),                              // somebody else's unicast address
            },
            2 => "3333ff000001".into(),
            _ => format!("{:x}", self.cur_hw),
        }
    }
    fn arp(&mut self, _p: &Plan) -> String {
        // mostly an answer to something we are probably asking for
        let n: u64 = if !self.recent4.is_empty() && self.rng.chance(3, 4) {
            *self.rng.pick(&self.recent4.clone()) as u64
        } else if self.rng.chance(1, 3) {
            *self.rng.pick(&[254u64, 253])
        } else {
            self.rng.range(2, 20) as u64
        };
        let mut spa = ip4(10, 0, 0, n as u8);
        let mut sha = nhw(n, if self.rng.chance(1, 8) { 1 } else { 0 });
        let mut tpa = ip4(10, 0, 0, 1);
        let mut op = if self.rng.chance(1, 4) { 1 } else { 2 };
        match self.rng.below(24) {
            0 => spa = self.rng.pick(&[ip4(172, 16, 0, 9), ip4(10, 9, 0, 5), ip4(10, 1, 0, 3)]).clone(), // off-link
            1 => spa = self.rng.pick(&[ip4(255, 255, 255, 255), ip4(224, 0, 0, 1), ip4(0, 0, 0, 0), ip4(10, 0, 0, 255)]).clone(),
            2 => sha = self.rng.pick(&["ffffffffffff".to_string(), "1005e000001".to_string(), "333300000001".to_string()]).clone(),
            3 => tpa = self.rng.pick(&[ip4(10, 0, 0, 7), ip4(10, 1, 0, 1), ip4(10, 0, 0, 255)]).clone(),
            4 => op = 9,
            5 => spa = ip4(10, 0, 0, 1),
            _ => {}
        }
        self.last_fill = self.now;
        format!("arp {} {} {} {} {}", self.edst(), op, sha, spa, tpa)
    }
    fn nd(&mut self, p: &Plan) -> String {
        let n: u64 = if !self.recent6.is_empty() && self.rng.chance(3, 4) {
            *self.rng.pick(&self.recent6.clone())
        } else if self.rng.chance(1, 3) {
            0xfe
        } else {
            self.rng.range(2, 20) as u64
        };
        let global = !p.addrs.iter().any(|a| a.starts_with("6.fe80")) || self.rng.chance(1, 8);
        let mut src = if global { ip6(GU, n) } else { ip6(LL, n) };
        let esrc = nhw(n, 0);
        let mut ll = nhw(n, if self.rng.chance(1, 8) { 1 } else { 0 });
        let own = if global { ip6(GU, 1) } else { ip6(LL, 1) };
        let mut dst = own.clone();
        let mut hop = 255;
        let mut target = src.clone();
        let is_na = self.rng.chance(2, 3);
        if !is_na {
            target = own.clone();
            if self.rng.chance(1, 2) {
                dst = ip6(0xff02_0000_0000_0000, 0x1_ff00_0001); // our solicited-node group
            }
        }
        match self.rng.below(24) {
            0 => hop = 64,
            1 => ll = "-".into(),
            2 => ll = self.rng.pick(&["ffffffffffff".to_string(), "333300000001".to_string()]).clone(),
            3 => target = self.rng.pick(&[ip6(0xff02_0000_0000_0000, 1), ip6(0, 0), ip6(LL, 9)]).clone(),
            4 => src = self.rng.pick(&[ip6(GU + 0xffff, 5), ip6(0, 0), ip6(0xff02_0000_0000_0000, 1), ip6(LL + 1, 7)]).clone(),
            5 => dst = self.rng.pick(&[ip6(0xff02_0000_0000_0000, 1), ip6(LL, 0x77), ip6(LL + 5, 0xabcd_0001), ip6(0, 1)]).clone(),
            _ => {}
        }
        self.last_fill = self.now;
        let edst = self.edst();
        if is_na {
            format!("ip6 {} {} {} {} {} na {} {} {}", edst, esrc, src, dst, hop, target, ll, self.rng.below(2))
        } else {
            format!("ip6 {} {} {} {} {} ns {} {}", edst, esrc, src, dst, hop, target, ll)
        }
    }
    fn echo(&mut self, p: &Plan) -> String {
        let use4 = if p.v4 && p.v6 { self.rng.chance(1, 2) } else { p.v4 };
        let n = if self.rng.chance(2, 3) { self.rng.range(2, 5) } else { self.rng.range(2, 20) } as u64;
        let esrc = nhw(n, if self.rng.chance(1, 6) { 1 } else { 0 });
        let edst = self.edst();
        self.last_fill = self.now;
        if use4 {
            let src = match self.rng.below(12) {
                0 => ip4(172, 16, 0, 9),
                1 => self.rng.pick(&[ip4(0, 0, 0, 0), ip4(10, 0, 0, 255), ip4(224, 0, 0, 5)]).clone(),
                _ => ip4(10, 0, 0, n as u8),
            };
            let dst = match self.rng.below(10) {
                0 => ip4(255, 255, 255, 255),
                1 => ip4(10, 0, 0, 255),
                2 => self.rng.pick(&[ip4(10, 0, 0, 9), ip4(224, 0, 0, 1), ip4(224, 0, 0, 9), ip4(10, 1, 0, 1)]).clone(),
                _ => ip4(10, 0, 0, 1),
            };
            format!("ip4 {} {} {} {}", edst, esrc, src, dst)
        } else {
            let src = match self.rng.below(12) {
                0 => ip6(GU + 0xffff, 5),
                1 => self.rng.pick(&[ip6(0, 0), ip6(0xff02_0000_0000_0000, 1)]).clone(),
                2 => ip6(GU, n),
                _ => ip6(LL, n),
            };
            let dst = match self.rng.below(10) {
                0 => ip6(0xff02_0000_0000_0000, 1),
                1 => self.rng.pick(&[ip6(LL, 0x77), ip6(GU, 1), ip6(0xff02_0000_0000_0000, 0x1_ff00_0001), ip6(LL + 9, 1)]).clone(),
                _ => ip6(LL, 1),
            };
            format!("ip6 {} {} {} {} {} echo", edst, esrc, src, dst, self.rng.pick(&[64, 255, 1]))
        }
    }
    /// 802.15.4 neighbor n: extended address (variant v: 0 genuine, 1 changed)
    fn l154(n: u64, v: u64) -> String {
        format!("{:x}", 0x0200_0000_0000_0100u64 + (v << 16) + n)
    }
    fn r154(&mut self, p: &Plan) -> String {
        let n: u64 = if !self.recent6.is_empty() && self.rng.chance(3, 4) {
            *self.rng.pick(&self.recent6.clone())
        } else if self.rng.chance(1, 3) {
            0xfe
        } else {
            self.rng.range(2, 20) as u64
        };
        let global = !p.addrs.iter().any(|a| a.starts_with("6.fe80")) || self.rng.chance(1, 8);
        let mut src = if global { ip6(GU, n) } else { ip6(LL, n) };
        let lsrc = Self::l154(n, if self.rng.chance(1, 10) { 1 } else { 0 });
        let mut ll = Self::l154(n, if self.rng.chance(1, 8) { 1 } else { 0 });
        let own = if global { ip6(GU, 1) } else { ip6(LL, 1) };
        let mut dst = own.clone();
        let mut hop = 255;
        let mut target = src.clone();
        let mut ldst = format!("{:x}", self.cur_hw);
        let mut panok = 1;
        let kind = self.rng.below(10);
        if (6..9).contains(&kind) {
            target = own.clone();
            if self.rng.chance(1, 2) {
                dst = ip6(0xff02_0000_0000_0000, 0x1_ff00_0001);
                ldst = "1000000000000ffff".into();
            }
        }
        match self.rng.below(30) {
            0 => hop = 64,
            1 => ll = "-".into(),
            2 => ll = self.rng.pick(&["1000000000000ffff".to_string(), "10000000000001234".to_string()]).clone(),
            3 => target = self.rng.pick(&[ip6(0xff02_0000_0000_0000, 1), ip6(0, 0), ip6(LL, 9)]).clone(),
            4 => src = self.rng.pick(&[ip6(GU + 0xffff, 5), ip6(0, 0), ip6(0xff02_0000_0000_0000, 1), ip6(LL + 1, 7)]).clone(),
            5 => dst = self.rng.pick(&[ip6(0xff02_0000_0000_0000, 1), ip6(LL, 0x77), ip6(LL + 5, 0xabcd_0001), ip6(0, 1)]).clone(),
            6 => panok = 0,
            7 => ldst = self.rng.pick(&["200000000000077".to_string(), "1000000000000ffff".to_string(), "10000000000000042".to_string()]).clone(),
            8 => {
                dst = ip6(0xff02_0000_0000_0000, 1);
                ldst = "1000000000000ffff".into();
            }
            _ => {}
        }
        self.last_fill = self.now;
        let head = format!("r154 {} {} {} {} {} {}", panok, ldst, lsrc, src, dst, hop);
        match kind {
            0..=5 => format!("{} na {} {} {}", head, target, ll, self.rng.below(2)),
            6..=8 => format!("{} ns {} {}", head, target, ll),
            _ => format!("{} echo", head),
        }
    }

    fn route(&mut self, p: &Plan) -> String {
        let use4 = if p.v4 && p.v6 { self.rng.chance(1, 2) } else { p.v4 };
        let exp = match self.rng.below(4) {
            0 => "-".to_string(),
            1 => format!("{}", self.now + self.rng.range(0, 3)),
            _ => format!("{}", self.now + self.rng.range(1, 70000)),
        };
        match self.rng.below(12) {
            0..=2 => {
                if use4 {
                    format!("rtdef4 {}", self.rng.pick(&[ip4(10, 0, 0, 254), ip4(10, 0, 0, 253), ip4(172, 16, 0, 1)]))
                } else {
                    format!("rtdef6 {}", self.rng.pick(&[ip6(LL, 0xfe), ip6(GU, 0xfe)]))
                }
            }
            3..=7 => {
                if use4 {
                    let c = self.rng.pick(&["4.0/0", "4.a090000/16", "4.a090000/24", "4.ac100000/12", "4.8080808/32", "4.a000000/8", "4.a000100/24", "4.80000000/1"]).to_string();
                    let via = self.rng.pick(&[ip4(10, 0, 0, 254), ip4(10, 0, 0, 253), ip4(10, 0, 0, 2), ip4(10, 1, 0, 9)]).clone();
                    format!("rtpush {} {} {}", c, via, exp)
                } else {
                    let c = self.rng.pick(&["6.0/0", "6.20010db8ffff00000000000000000000/48", "6.20000000000000000000000000000000/3", "6.26000000000000000000000000000001/128", "6.fe800000000000010000000000000000/64"]).to_string();
                    let via = self.rng.pick(&[ip6(LL, 0xfe), ip6(GU, 0xfe), ip6(LL, 2)]).clone();
                    format!("rtpush {} {} {}", c, via, exp)
                }
            }
            8 => format!("rtrm {}", self.rng.below(3)),
            9 => "rtclear".into(),
            10 => "rtrmdef4".into(),
            _ => "rtrmdef6".into(),
        }
    }
}

fn gen_case(rng: &mut Rng, id: String, tier: &str) -> Case {
    gen_case_med(rng, id, tier, true)
}

/// `allow154`: one case in five runs on Medium::Ieee802154 (IPv6 only, UDP / ICMP sockets: a raw
/// socket on that medium hits `todo!()` in dispatch_sixlowpan)
fn gen_case_med(rng: &mut Rng, id: String, tier: &str, allow154: bool) -> Case {
    let is154 = allow154 && rng.chance(1, 5);
    let socks = if is154 {
        rng.pick(&["u", "uu", "ui", "iu", "i", "uui"]).to_string()
    } else {
        rng.pick(&["u", "uu", "ui", "ur", "uir", "iru", "uuu", "i", "r"]).to_string()
    };
    let qcap = rng.range(1, 5);
    // 1 script in 6: the device verifies no receive checksum; 1 in 5: device back-pressure (only on
    // configurations without MLD housekeeping frames, which would share the budget: IPv4-only
    // Ethernet or 802.15.4)
    let ck_tx = rng.chance(1, 6);
    let backpressure = rng.chance(1, 5);
    let mut cfg = vec![
        ("med".to_string(), if is154 { "154" } else { "eth" }.to_string()),
        ("hw".to_string(), if is154 { format!("{:x}", OWN_154) } else { format!("{:x}", OWN_HW) }),
        ("cap".to_string(), smoltcp::config::IFACE_NEIGHBOR_CACHE_COUNT.to_string()),
        ("rcap".to_string(), smoltcp::config::IFACE_MAX_ROUTE_COUNT.to_string()),
        ("qcap".to_string(), qcap.to_string()),
        ("socks".to_string(), socks.clone()),
    ];
    if ck_tx {
        cfg.push(("ck".to_string(), "tx".to_string()));
    }
    let plans_v4 = |rng: &mut Rng| -> Plan {
        if rng.chance(1, 2) {
            Plan { addrs: vec![format!("{}/24", ip4(10, 0, 0, 1)), format!("{}/16", ip4(10, 1, 0, 1))], v4: true, v6: false }
        } else {
            Plan { addrs: vec![format!("{}/24", ip4(10, 0, 0, 1))], v4: true, v6: false }
        }
    };
    let plans154 = |rng: &mut Rng| -> Plan {
        if rng.chance(2, 3) {
            Plan { addrs: vec![format!("{}/64", ip6(LL, 1))], v4: false, v6: true }
        } else {
            Plan { addrs: vec![format!("{}/64", ip6(LL, 1)), format!("{}/64", ip6(GU, 1))], v4: false, v6: true }
        }
    };
    let mut plan = if is154 { plans154(rng) } else if backpressure { plans_v4(rng) } else { plans(rng) };
    let mut ops = vec![format!("addrs {}", plan.addrs.join(" "))];
    if backpressure {
        ops.push(format!("txb {}", rng.below(3)));
    }
    let len = if tier == "thorough" { rng.range(8, 120) } else { rng.range(6, 60) };
    let mut g = Gen { rng, now: 0, recent4: vec![], recent6: vec![], last_req: 0, last_fill: 0, tag: 0, nsock: socks.len(), cur_hw: if is154 { OWN_154 } else { OWN_HW }, old_hw: None };
    g.now = g.rng.range(0, 2000);
    // usually start with a default route
    if g.rng.chance(2, 3) {
        if plan.v4 {
            ops.push(format!("rtdef4 {}", ip4(10, 0, 0, 254)));
        }
        if plan.v6 && g.rng.chance(1, 2) {
            ops.push(format!("rtdef6 {}", ip6(LL, 0xfe)));
        }
    }
    for _ in 0..len {
        if backpressure && g.rng.chance(1, 12) {
            ops.push(format!("txb {}", g.rng.pick(&["0", "1", "2", "2", "-"])));
        }
        let nops = ops.len();
        match g.rng.below(100) {
            0..=31 => {
                let mut d = g.dst(&plan);
                if is154 && g.rng.chance(1, 25) {
                    // IPv4 destination on the IPv6-only medium: the socket finds no source address
                    d = g.rng.pick(&[ip4(10, 0, 0, 2), ip4(255, 255, 255, 255), ip4(224, 0, 0, 1)]).clone();
                }
                g.tag += 1;
                let extra = if g.rng.chance(1, 30) { 1 } else { 0 };
                let s = g.rng.below(g.nsock as u64 + extra);
                // a raw socket drops a packet with the unspecified destination silently and offers no
                // queue-length observable to notice it: not generated (udp/icmp refuse it at send)
                if socks.as_bytes().get(s as usize) == Some(&b'r') && (d == "4.0" || d == "6.0") {
                    d = if d == "4.0" { ip4(10, 0, 0, 2) } else { ip6(LL, 2) };
                }
                ops.push(format!("send {} {} {}", s, d, g.tag));
            }
            32..=61 => {
                g.advance();
                ops.push(format!("poll {}", g.now));
                g.last_req = g.now;
            }
            62..=93 if is154 => {
                let a = g.r154(&plan);
                ops.push(a);
            }
            62..=76 => {
                if plan.v4 {
                    let a = g.arp(&plan);
                    ops.push(a);
                } else {
                    let a = g.nd(&plan);
                    ops.push(a);
                }
            }
            77..=88 => {
                if plan.v6 {
                    let a = g.nd(&plan);
                    ops.push(a);
                } else {
                    let a = g.arp(&plan);
                    ops.push(a);
                }
            }
            89..=93 => {
                let a = g.echo(&plan);
                ops.push(a);
            }
            94..=98 => {
                let a = g.route(&plan);
                ops.push(a);
            }
            _ => {
                if g.rng.chance(1, 2) {
                    plan = if is154 { plans154(g.rng) } else if backpressure { plans_v4(g.rng) } else { plans(g.rng) };
                    ops.push(format!("addrs {}", plan.addrs.join(" ")));
                } else {
                    // set_hardware_addr: toggle between two unicast addresses; rarely a multicast one,
                    // which panics by contract (both sides report PANIC and the script ends there)
                    let base = if is154 { OWN_154 } else { OWN_HW };
                    let new = if g.rng.chance(1, 12) {
                        if is154 { (1u128 << 64) + 0xffff } else { 0x0100_5e00_0001 }
                    } else if g.cur_hw == base {
                        (base + 1) as u128
                    } else {
                        base as u128
                    };
                    ops.push(format!("sethw {:x}", new));
                    if new >> 64 == 0 && (is154 || (new >> 40) & 1 == 0) {
                        g.old_hw = Some(g.cur_hw);
                        g.cur_hw = new as u64;
                    }
                }
            }
        }
        // corrupt the ICMP checksum of 1 injected IP frame in 12, the IPv4 header checksum of 1 in 25
        if ops.len() == nops + 1 {
            let last = ops.last().unwrap().clone();
            if last.starts_with("ip4 ") || last.starts_with("ip6 ") || last.starts_with("r154 ") {
                if g.rng.chance(1, 12) {
                    *ops.last_mut().unwrap() = format!("{} bad4", last);
                } else if last.starts_with("ip4 ") && g.rng.chance(1, 25) {
                    *ops.last_mut().unwrap() = format!("{} badi", last);
                }
            }
        }
    }
    g.advance();
    ops.push(format!("poll {}", g.now));
    Case { id, cfg, ops }
}

// ---------- implementation-side oracle (independent of the Coq model) ----------
//
// Shadow state kept by the oracle: the configured CIDRs (from the script), an UNBOUNDED table of
// everything a valid ARP / NDISC message ever taught about a neighbor, and the route table read
// back from the interface.  Checked on every frame the real interface transmits:
//   * a unicast IP packet goes to a hardware address that a valid message taught for the CORRECT
//     next hop (destination if on-link, else gateway of a longest-prefix unexpired matching route),
//     that mapping was confirmed less than 60 s ago and has not been superseded by a later
//     unconditional (ARP / NS / override-NA) message;
//   * broadcast / multicast destinations use the derived hardware address;
//   * discovery requests go to the broadcast / solicited-node address, ask for the next hop of
//     something that is actually waiting, and are at least 1 s apart;
//   * after a drain phase (every request answered) each accepted packet was transmitted exactly
//     once or is still queued.

#[derive(Default, Clone)]
struct Learned {
    /// hw -> (index of the last valid message teaching it, time of the last confirmation)
    hws: BTreeMap<u64, (u64, i64)>,
    /// index of the last unconditional valid message for this neighbor
    last_uncond: u64,
}

struct Oracle {
    addrs: Vec<IpCidr>,
    learned: BTreeMap<IpAddress, Learned>,
    msg_idx: u64,
    pending_rx: Vec<Vec<String>>,
    /// tag -> (socket, dst)
    accepted: BTreeMap<i64, (usize, IpAddress)>,
    on_wire: BTreeMap<i64, u32>,
    last_discovery: Option<i64>,
    v4_gap: bool,
    own_hw: u64,
    /// the interface verifies receive checksums
    verify: bool,
    /// frames handed to the device and not yet taken by the interface (back-pressure)
    in_dev: std::collections::VecDeque<Vec<String>>,
}

fn bits_of(a: &IpAddress) -> (u128, u32) {
    match a {
        IpAddress::Ipv4(x) => (x.to_bits() as u128, 32),
        IpAddress::Ipv6(x) => (x.to_bits(), 128),
    }
}
fn same_family(a: &IpAddress, b: &IpAddress) -> bool {
    matches!((a, b), (IpAddress::Ipv4(_), IpAddress::Ipv4(_)) | (IpAddress::Ipv6(_), IpAddress::Ipv6(_)))
}
/// prefix match computed on the integers (independent of smoltcp's Cidr code)
fn in_prefix(net: &IpAddress, plen: u8, a: &IpAddress) -> bool {
    if !same_family(net, a) {
        return false;
    }
    let ((n, w), (x, _)) = (bits_of(net), bits_of(a));
    if plen == 0 {
        return true;
    }
    let sh = w - plen as u32;
    if sh >= 128 {
        return true;
    }
    (n >> sh) == (x >> sh)
}
fn is_mcast(a: &IpAddress) -> bool {
    match a {
        IpAddress::Ipv4(x) => x.octets()[0] & 0xf0 == 0xe0,
        IpAddress::Ipv6(x) => x.octets()[0] == 0xff,
    }
}
fn is_zero(a: &IpAddress) -> bool {
    bits_of(a).0 == 0
}
fn hw_unicast(h: u64) -> bool {
    h != 0xffff_ffff_ffff && (h >> 40) & 1 == 0
}

impl Oracle {
    fn new() -> Oracle {
        Oracle {
            addrs: vec![],
            learned: BTreeMap::new(),
            msg_idx: 0,
            pending_rx: vec![],
            accepted: BTreeMap::new(),
            on_wire: BTreeMap::new(),
            last_discovery: None,
            v4_gap: false,
            own_hw: OWN_HW,
            verify: true,
            in_dev: Default::default(),
        }
    }
    fn on_link(&self, a: &IpAddress) -> bool {
        self.addrs.iter().any(|c| in_prefix(&c.address(), c.prefix_len(), a))
    }
    fn is_ours(&self, a: &IpAddress) -> bool {
        self.addrs.iter().any(|c| c.address() == *a)
    }
    fn is_bcast(&self, a: &IpAddress) -> bool {
        match a {
            IpAddress::Ipv4(x) => {
                let v = x.to_bits();
                v == u32::MAX
                    || self.addrs.iter().any(|c| match c {
                        IpCidr::Ipv4(c4) if c4.prefix_len() < 31 => {
                            let host = if c4.prefix_len() == 0 { u32::MAX } else { u32::MAX >> c4.prefix_len() };
                            v == (c4.address().to_bits() | host)
                        }
                        _ => false,
                    })
            }
            _ => false,
        }
    }
    fn unicast_ip(&self, a: &IpAddress) -> bool {
        !is_mcast(a) && !is_zero(a) && !self.is_bcast(a)
    }
    /// acceptable next hops of `d` at `now` (several when equally long prefixes tie)
    fn next_hops(&self, routes: &[Route], d: &IpAddress, now: i64) -> Vec<IpAddress> {
        if self.on_link(d) {
            return vec![*d];
        }
        let live: Vec<&Route> = routes
            .iter()
            .filter(|r| r.expires_at.map_or(true, |e| now <= e.total_millis()))
            .filter(|r| in_prefix(&r.cidr.address(), r.cidr.prefix_len(), d))
            .collect();
        let best = live.iter().map(|r| r.cidr.prefix_len()).max();
        live.iter().filter(|r| Some(r.cidr.prefix_len()) == best).map(|r| r.via_router).collect()
    }
    fn learn(&mut self, ip: IpAddress, hw: u64, now: i64, uncond: bool, overrides: bool) {
        self.msg_idx += 1;
        let idx = self.msg_idx;
        let e = self.learned.entry(ip).or_default();
        if !overrides {
            // a non-override advertisement is only taken when nothing live is known; the oracle's
            // table is unbounded, so it records the candidate without superseding anything
            e.hws.insert(hw, (idx, now));
            return;
        }
        e.hws.insert(hw, (idx, now));
        if uncond {
            e.last_uncond = idx;
        }
    }
    fn confirm(&mut self, ip: &IpAddress, hw: u64, now: i64) {
        if let Some(e) = self.learned.get_mut(ip) {
            if let Some(x) = e.hws.get_mut(&hw) {
                x.1 = now;
            }
        }
    }
    /// process the frames injected since the last poll, with the validity rules of the property:
    /// addressed to us, hop limit 255, unicast on-link source, unicast hardware address
    fn ingest(&mut self, now: i64) -> Vec<IpAddress> {
        let mut sources = vec![];
        for t in std::mem::take(&mut self.pending_rx) {
            let mut t: Vec<&str> = t.iter().map(|s| s.as_str()).collect();
            // corrupted checksums matter only when the interface verifies them: a bad IPv4 header
            // checksum makes the frame unparseable, a bad ICMP checksum stops it after the refresh
            let mut bad4 = false;
            if t.last() == Some(&"badi") || t.last() == Some(&"bad4") {
                let b = t.pop().unwrap();
                if self.verify {
                    if b == "badi" {
                        continue;
                    }
                    bad4 = true;
                }
            }
            let edst = parse_hw(t[1]);
            if edst != self.own_hw && hw_unicast(edst) {
                continue;
            }
            if !hw_unicast(edst) && t[0] != "arp" {
                let dst = parse_ip(t[4]);
                if !is_mcast(&dst) && !self.is_bcast(&dst) {
                    continue;
                }
            }
            match t[0] {
                "arp" => {
                    let (op, sha, spa, tpa) = (t[2], parse_hw(t[3]), parse_ip(t[4]), parse_ip(t[5]));
                    if (op == "1" || op == "2")
                        && self.is_ours(&tpa)
                        && !is_mcast(&spa)
                        && !is_zero(&spa)
                        && bits_of(&spa).0 != u32::MAX as u128
                        && hw_unicast(sha)
                        && self.on_link(&spa)
                    {
                        self.learn(spa, sha, now, true, true);
                    }
                }
                "ip4" => {
                    let (esrc, src, dst) = (parse_hw(t[2]), parse_ip(t[3]), parse_ip(t[4]));
                    if self.is_ours(&dst) {
                        self.confirm(&src, esrc, now);
                    }
                    if !bad4 {
                        sources.push(src);
                    }
                }
                "ip6" => {
                    let (esrc, src, dst, hop) = (parse_hw(t[2]), parse_ip(t[3]), parse_ip(t[4]), t[5]);
                    if is_mcast(&src) || is_zero(&src) {
                        continue;
                    }
                    // destination filter of the interface: one of our addresses, all-nodes, or the
                    // solicited-node group of one of our addresses
                    let d = bits_of(&dst).0;
                    let accepted = self.is_ours(&dst)
                        || d == (0xff02u128 << 112) | 1
                        || (d >> 24 == ((0xff02u128 << 112) | (0x1ffu128 << 24)) >> 24
                            && self.addrs.iter().any(|c| {
                                matches!(c, IpCidr::Ipv6(_)) && bits_of(&c.address()).0 != 1 && bits_of(&c.address()).0 & 0xff_ffff == d & 0xff_ffff
                            }));
                    if !accepted {
                        continue;
                    }
                    if !is_mcast(&dst) {
                        self.confirm(&src, esrc, now);
                    }
                    if bad4 {
                        continue;
                    }
                    sources.push(src);
                    if hop != "255" || t[6] == "echo" {
                        continue;
                    }
                    let (target, ll) = (parse_ip(t[7]), t[8]);
                    if ll == "-" || !hw_unicast(parse_hw(ll)) || is_mcast(&target) || is_zero(&target) {
                        continue;
                    }
                    if t[6] == "na" {
                        self.learn(src, parse_hw(ll), now, t[9] == "1", t[9] == "1");
                    } else {
                        self.learn(src, parse_hw(ll), now, true, true);
                    }
                }
                _ => {}
            }
        }
        sources
    }
}

impl Oracle {
    /// check the frames transmitted in one step; returns the discovery requests among them
    fn check(
        &mut self,
        txs: &[Tx],
        wanted: &[IpAddress],
        routes: &[Route],
        now: i64,
        stats: &mut BTreeMap<String, u64>,
        fail: &mut dyn FnMut(&str, String),
    ) -> Vec<(bool, IpAddress)> {
        let mut bump = |k: &str| *stats.entry(k.to_string()).or_default() += 1;
        let mut outstanding: Vec<(bool, IpAddress)> = vec![];
        for tx in txs {
            match tx {
                Tx::Other { hw, dst } => {
                    if !is_mcast(dst) || hw_unicast(*hw) {
                        fail("housekeeping-frame-misaddressed", format!("{:?}", tx));
                    }
                }
                Tx::ArpReq { hw, target } | Tx::Ns { hw, target } => {
                    let is_arp = matches!(tx, Tx::ArpReq { .. });
                    bump(if is_arp { "arp_requests" } else { "neighbor_solicitations" });
                    let want_hw = if is_arp {
                        0xffff_ffff_ffffu64
                    } else {
                        0x3333_ff00_0000u64 | (bits_of(target).0 as u64 & 0xff_ffff)
                    };
                    if *hw != want_hw {
                        fail("discovery-wrong-hw", format!("{:?} should go to {:x}", tx, want_hw));
                    }
                    if let Some(prev) = self.last_discovery {
                        if now - prev < 1000 {
                            fail("discovery-too-frequent", format!("{:?} at {} ms, previous request at {} ms", tx, now, prev));
                        }
                    }
                    self.last_discovery = Some(now);
                    let ok = wanted.iter().any(|d| self.next_hops(routes, d, now).contains(target));
                    if !ok {
                        fail("discovery-wrong-target", format!("{:?}: nothing waiting has this next hop", tx));
                    }
                    outstanding.push((is_arp, *target));
                }
                Tx::ArpRep { hw, .. } => {
                    bump("arp_replies");
                    if !hw_unicast(*hw) {
                        fail("arp-reply-to-nonunicast-hw", format!("{:?}", tx));
                    }
                }
                Tx::Ip { hw, dst, tag } => {
                    if *tag >= 0 {
                        *self.on_wire.entry(*tag).or_default() += 1;
                        if self.on_wire[tag] > 1 {
                            fail("socket-data-duplicated", format!("tag {} transmitted {} times", tag, self.on_wire[tag]));
                        }
                        if !self.accepted.contains_key(tag) {
                            fail("socket-data-invented", format!("tag {} was never accepted", tag));
                        }
                    }
                    if self.is_bcast(dst) {
                        bump("tx_broadcast");
                        if *hw != 0xffff_ffff_ffff {
                            fail("broadcast-multicast-hw-wrong", format!("{:?}", tx));
                        }
                        continue;
                    }
                    if is_mcast(dst) {
                        bump("tx_multicast");
                        let want = match dst {
                            IpAddress::Ipv4(x) => 0x0100_5e00_0000u64 | (x.to_bits() as u64 & 0x7f_ffff),
                            IpAddress::Ipv6(x) => 0x3333_0000_0000u64 | (x.to_bits() as u64 & 0xffff_ffff),
                        };
                        if *hw != want {
                            fail("broadcast-multicast-hw-wrong", format!("{:?} should go to {:x}", tx, want));
                        }
                        continue;
                    }
                    bump("tx_unicast");
                    if !self.on_link(dst) {
                        bump("tx_unicast_via_gateway");
                    }
                    let nhs = self.next_hops(routes, dst, now);
                    if nhs.is_empty() {
                        fail("sent-without-route", format!("{:?}: destination is off-link and no unexpired route matches", tx));
                        continue;
                    }
                    let mut verdicts = vec![];
                    for nh in &nhs {
                        let v = match self.learned.get(nh).and_then(|l| l.hws.get(hw).map(|x| (*x, l.last_uncond))) {
                            None => "unicast-to-unlearned-hw",
                            Some(((_, conf), _)) if now >= conf + 60000 => "stale-neighbor-used",
                            Some(((idx, _), last_uncond)) if idx < last_uncond => "superseded-neighbor-used",
                            Some(_) => "",
                        };
                        verdicts.push(v);
                    }
                    if !verdicts.iter().any(|v| v.is_empty()) {
                        let age: Vec<String> = nhs
                            .iter()
                            .map(|nh| format!("{} learned={:?}", show_ip(nh), self.learned.get(nh).map(|l| l.hws.clone())))
                            .collect();
                        fail(verdicts[0], format!("{:?} at {} ms; next hop(s): {}", tx, now, age.join("; ")));
                    }
                    if let Some(l) = nhs.first().and_then(|nh| self.learned.get(nh)) {
                        if let Some((_, conf)) = l.hws.get(hw) {
                            if now - conf >= 59000 {
                                bump("tx_unicast_entry_older_than_59s");
                            }
                        }
                    }
                }
            }
        }
        outstanding
    }
}

fn oracle_case(c: &Case, fails: &mut Vec<String>, stats: &mut BTreeMap<String, u64>) {
    let mut w = World::new(c);
    let mut o = Oracle::new();
    o.verify = c.get("ck") != Some("tx");
    let mut now_ms: i64 = 0;
    let mut ops: Vec<String> = c.ops.clone();
    let drain_from = ops.len();
    let mut k = 0usize;
    let mut drain_rounds = 0;
    // discovery requests seen since the drain phase last answered them
    let mut outstanding: Vec<(bool, IpAddress)> = vec![];
    while k < ops.len() {
        let op = ops[k].clone();
        k += 1;
        let t: Vec<&str> = op.split_whitespace().collect();
        let cid = c.id.clone();
        let opn = k - 1;
        let mut fail = |class: &str, why: String| {
            fails.push(format!("{} :: case {} op#{} `{}`: {}", class, cid, opn, op, why));
        };
        if t[0] != "poll" {
            let res = catch(std::panic::AssertUnwindSafe(|| match t[0] {
                "send" => {
                    let (s, d, tag): (usize, IpAddress, u32) = (t[1].parse().unwrap(), parse_ip(t[2]), t[3].parse().unwrap());
                    if w.send(s, d, tag) {
                        o.accepted.insert(tag as i64, (s, d));
                    }
                }
                "arp" | "ip4" | "ip6" => {
                    // held back: handed to the interface one at a time at the next poll
                    o.pending_rx.push(t.iter().map(|s| s.to_string()).collect());
                }
                "addrs" => {
                    w.admin(&t);
                    o.addrs = t[1..].iter().map(|s| parse_cidr(s)).collect();
                }
                "sethw" => {
                    w.admin(&t);
                    o.own_hw = parse_hw(t[1]);
                }
                _ => {
                    w.admin(&t);
                }
            }));
            if res.is_none() {
                if t[0] == "sethw" && !hw_unicast(parse_hw(t[1])) {
                    // documented contract of set_hardware_addr: panics for a non-unicast address
                    *stats.entry("sethw_nonunicast_panics".into()).or_default() += 1;
                    return;
                }
                fail("panic", "the interface panicked".into());
                return;
            }
            continue;
        }
        // ----- a poll at `now`: ingress frame by frame (poll_ingress_single), then Interface::poll -----
        let now: i64 = t[1].parse::<i64>().unwrap().max(now_ms);
        now_ms = now;
        *stats.entry("polls".into()).or_default() += 1;
        let mut routes: Vec<Route> = vec![];
        w.iface.routes_mut().update(|v| routes = v.iter().cloned().collect());
        if !o.addrs.iter().any(|c| matches!(c, IpCidr::Ipv4(_))) {
            o.v4_gap = true;
        }
        // device back-pressure: the budget of this poll; frames the interface does not take stay in
        // the device queue for a later poll
        w.dev.tx_budget = w.txb;
        let own = format!("{:x}", o.own_hw);
        for f in std::mem::take(&mut o.pending_rx) {
            let ft: Vec<&str> = f.iter().map(|s| s.as_str()).collect();
            w.inject(&ft);
            o.in_dev.push_back(f);
        }
        while let Some(f) = o.in_dev.front().cloned() {
            let before = w.dev.n_rx;
            let res = catch(std::panic::AssertUnwindSafe(|| {
                w.iface.poll_ingress_single(Instant::from_millis(now), &mut w.dev, &mut w.sockets);
                w.dev.drain_tx()
            }));
            let frames = match res {
                Some(x) => x,
                None => {
                    fail("panic", format!("the interface panicked on `{}`", f.join(" ")));
                    return;
                }
            };
            if w.dev.n_rx == before {
                // receive() handed nothing out: no transmit budget left
                *stats.entry("rx_held_back_by_backpressure".into()).or_default() += 1;
                if !frames.is_empty() {
                    fail("frame-sent-without-budget", format!("{} frame(s)", frames.len()));
                }
                break;
            }
            o.in_dev.pop_front();
            let txs: Vec<Tx> = frames.iter().map(|b| classify(b)).collect();
            for b in &frames {
                if sender_eth(b) != own {
                    fail("stale-sender-hardware-address", format!("sender {} but the interface address is {}", sender_eth(b), own));
                }
            }
            o.pending_rx = vec![f.clone()];
            let sources = o.ingest(now);
            outstanding.extend(o.check(&txs, &sources, &routes, now, stats, &mut fail));
        }
        let budget_before = w.dev.tx_budget;
        let txs = match catch(std::panic::AssertUnwindSafe(|| w.poll(now))) {
            Some(x) => x,
            None => {
                fail("panic", "the interface panicked in poll".into());
                return;
            }
        };
        if let Some(b) = budget_before {
            if txs.len() > b {
                fail("frame-sent-without-budget", format!("{} frames with budget {}", txs.len(), b));
            }
            if b == 0 {
                *stats.entry("polls_without_tx_budget".into()).or_default() += 1;
            }
        }
        for from in &w.last_from {
            if *from != own {
                fail("stale-sender-hardware-address", format!("sender {} but the interface address is {}", from, own));
            }
        }
        let mut wanted: Vec<IpAddress> = vec![];
        for (tag, (_, d)) in &o.accepted {
            if o.on_wire.get(tag).copied().unwrap_or(0) == 0 {
                wanted.push(*d);
            }
        }
        outstanding.extend(o.check(&txs, &wanted, &routes, now, stats, &mut fail));
        let lens = w.qlens();
        if std::env::var("C16_DEBUG").is_ok() {
            eprintln!("poll {} txs={:?} q={:?} wanted={:?}", now, txs, lens, wanted.iter().map(show_ip).collect::<Vec<_>>());
        }
        if lens.iter().any(|x| *x < 0) {
            fail("raw-queue-accounting", format!("{:?}", lens));
        }
        // ----- drain phase: answer every request until the queues are empty -----
        if k == ops.len() {
            let queued: i64 = lens.iter().sum();
            if k == drain_from {
                *stats.entry("queued_at_script_end".into()).or_default() += queued as u64;
            }
            if queued > 0 && drain_rounds < 60 {
                if drain_rounds == 0 {
                    // lift the back-pressure, make everything routable through an on-link gateway
                    ops.push("txb -".into());
                    ops.push("rtclear".into());
                    if o.addrs.iter().any(|c| matches!(c, IpCidr::Ipv4(_))) {
                        ops.push(format!("rtdef4 {}", ip4(10, 0, 0, 2)));
                    }
                    if let Some(own) = o.addrs.iter().find(|c| matches!(c, IpCidr::Ipv6(_))) {
                        ops.push(format!("rtdef6 6.{:x}", (bits_of(&own.address()).0 & !0xffffu128) | 2));
                    }
                }
                drain_rounds += 1;
                for (is_arp, target) in &std::mem::take(&mut outstanding) {
                    let n = bits_of(target).0 as u64 & 0xff;
                    if *is_arp {
                        if let Some(own) = o.addrs.iter().find(|c| matches!(c, IpCidr::Ipv4(_))) {
                            ops.push(format!("arp {:x} 2 {} {} {}", o.own_hw, nhw(n, 0), show_ip(target), show_ip(&own.address())));
                        }
                    } else if let Some(own) = o.addrs.iter().find(|c| matches!(c, IpCidr::Ipv6(_))) {
                        ops.push(format!(
                            "ip6 {:x} {} {} {} 255 na {} {} 1",
                            o.own_hw,
                            nhw(n, 0),
                            show_ip(target),
                            show_ip(&own.address()),
                            show_ip(target),
                            nhw(n, 0)
                        ));
                    }
                }
                ops.push(format!("poll {}", now + 1));
                ops.push(format!("poll {}", now + 1000));
            }
        }
    }
    // ----- exactly-once / not-lost accounting -----
    let lens = w.qlens();
    let queued: i64 = lens.iter().sum();
    let sent = o.accepted.keys().filter(|t| o.on_wire.get(t).copied().unwrap_or(0) >= 1).count() as i64;
    let accepted = o.accepted.len() as i64;
    *stats.entry("packets_accepted".into()).or_default() += accepted as u64;
    *stats.entry("packets_transmitted".into()).or_default() += sent as u64;
    *stats.entry("packets_still_queued".into()).or_default() += queued.max(0) as u64;
    if std::env::var("C16_DEBUG").is_ok() && queued > 0 {
        eprintln!("STILLQUEUED {} {:?}", c.id, lens);
    }
    if sent + queued != accepted {
        // the only legitimate silent drop: an IPv4 packet while the interface had no IPv4 address
        let missing: Vec<i64> = o.accepted.keys().filter(|t| !o.on_wire.contains_key(t)).cloned().collect();
        let v4_missing = missing.iter().filter(|t| matches!(o.accepted[t].1, IpAddress::Ipv4(_))).count() as i64;
        // ... and a raw packet whose own header carries the unspecified destination
        let unspec_missing = missing.iter().filter(|t| is_zero(&o.accepted[t].1)).count() as i64;
        let lost = accepted - sent - queued;
        if lost <= unspec_missing + if o.v4_gap { v4_missing } else { 0 } {
            *stats.entry("dropped_by_socket_no_source_or_unspecified".into()).or_default() += lost as u64;
        } else {
            fails.push(format!(
                "socket-data-lost :: case {}: accepted {} transmitted {} still queued {} (untransmitted tags {:?})",
                c.id, accepted, sent, queued, missing
            ));
        }
    }
    if o.learned.len() > smoltcp::config::IFACE_NEIGHBOR_CACHE_COUNT {
        *stats.entry("cases_with_more_neighbors_than_slots".into()).or_default() += 1;
    }
}

fn run_oracle(cases: &[Case], out: &mut dyn Write, emit_cases: bool) {
    let mut fails = vec![];
    let mut stats = BTreeMap::new();
    let mut done = 0;
    for c in cases {
        if c.get("med") == Some("154") {
            // the trace oracle reads Ethernet frames; 802.15.4 cases are covered by the correspondence only
            continue;
        }
        let before = fails.len();
        oracle_case(c, &mut fails, &mut stats);
        done += 1;
        if fails.len() > before && emit_cases {
            writeln!(out, "FAILCASE").unwrap();
            c.write(out);
        }
        if fails.len() > 20 {
            break;
        }
    }
    for f in &fails {
        writeln!(out, "FAIL {}", f).unwrap();
    }
    if emit_cases {
        let st: Vec<String> = stats.iter().map(|(k, v)| format!("{}:{}", jstr(k), v)).collect();
        writeln!(out, "STATS {{\"cases\":{},{}}}", done, st.join(",")).unwrap();
    }
}

fn main() {
    if std::env::var("C16_DEBUG").is_err() {
        quiet_panics();
    }
    let (sub, seed, n, tier) = args();
    let stdout = std::io::stdout();
    let mut out = std::io::BufWriter::new(stdout.lock());
    match sub.as_str() {
        "gen" => {
            let mut rng = Rng::new(seed);
            for i in 0..n {
                gen_case(&mut rng, format!("s{}-{}", seed, i), &tier).write(&mut out);
            }
        }
        "run" => {
            for c in stdin_cases() {
                run_case(&c, &mut out);
            }
        }
        "oracle" => {
            let mut rng = Rng::new(seed ^ 0xC16C16);
            let cases: Vec<Case> = (0..n).map(|i| gen_case_med(&mut rng, format!("o{}-{}", seed, i), &tier, false)).collect();
            run_oracle(&cases, &mut out, true);
        }
        "oracle-replay" => run_oracle(&stdin_cases(), &mut out, false),
        x => panic!("unknown subcommand {}", x),
    }
}
