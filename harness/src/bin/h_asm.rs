//! Stream `asm`: smoltcp::storage::Assembler (property C15).
use smoltcp::storage::Assembler;
use std::collections::BTreeMap;
use std::io::Write;
use svh::*;

fn cap() -> usize {
    // capacity is compile-time configuration; measure it instead of trusting a constant
    let mut a = Assembler::new();
    let mut k = 0;
    while a.add(3 * k + 1, 1).is_ok() {
        k += 1;
        if k > 4096 {
            break;
        }
    }
    k
}

fn gen_case(rng: &mut Rng, id: String, n: usize, tier: &str) -> Case {
    // universe size: small (dense collisions) most of the time, sometimes large
    let uni: i64 = match rng.below(10) {
        0..=4 => 24,
        5..=7 => 64,
        8 => 1000,
        _ => 70000,
    };
    let len = if tier == "thorough" { rng.range(1, 40) } else { rng.range(1, 24) };
    let mut ops = vec![];
    for _ in 0..len {
        let o = if rng.chance(1, 5) { 0 } else { rng.range(0, uni) };
        let s = match rng.below(8) {
            0 => 0,
            1..=4 => rng.range(1, 4),
            _ => rng.range(1, (uni / 3).max(1)),
        };
        match rng.below(20) {
            0..=10 => ops.push(format!("add {} {}", o, s)),
            11..=13 => ops.push("rf".to_string()),
            14..=18 => ops.push(format!("atrf {} {}", o, s)),
            _ => ops.push("clear".to_string()),
        }
    }
    Case { id, cfg: vec![("n".into(), n.to_string())], ops }
}

fn show(a: &Assembler) -> String {
    let mut s = String::new();
    for (l, r) in a.iter_data() {
        s.push_str(&format!(" {}-{}", l, r));
    }
    format!("pk={} e={} |{}", a.peek_front(), a.is_empty() as u8, s)
}

fn run_case(c: &Case, out: &mut dyn Write) {
    writeln!(out, "case {}", c.id).unwrap();
    let mut a = Assembler::new();
    for op in &c.ops {
        let t: Vec<&str> = op.split_whitespace().collect();
        let r: i64 = match t[0] {
            "add" => a.add(t[1].parse().unwrap(), t[2].parse().unwrap()).is_ok() as i64,
            "rf" => a.remove_front() as i64,
            "atrf" => match a.add_then_remove_front(t[1].parse().unwrap(), t[2].parse().unwrap()) {
                Ok(k) => k as i64,
                Err(_) => -1,
            },
            "clear" => {
                a.clear();
                0
            }
            x => panic!("bad op {}", x),
        };
        writeln!(out, "r {} {}", r, show(&a)).unwrap();
    }
}

/// Implementation-side oracle: a bit-set shadow of the tracked ranges.
fn oracle_case(c: &Case, n: usize, fails: &mut Vec<String>, stats: &mut BTreeMap<String, u64>) {
    let mut a = Assembler::new();
    let mut set: Vec<bool> = vec![]; // shadow membership
    let canon = |set: &Vec<bool>| -> Vec<(usize, usize)> {
        let mut v = vec![];
        let mut i = 0;
        while i < set.len() {
            if set[i] {
                let s = i;
                while i < set.len() && set[i] {
                    i += 1;
                }
                v.push((s, i));
            } else {
                i += 1;
            }
        }
        v
    };
    for (k, op) in c.ops.iter().enumerate() {
        let t: Vec<&str> = op.split_whitespace().collect();
        let before: Vec<(usize, usize)> = a.iter_data().collect();
        let mut fail = |class: &str, why: String| {
            fails.push(format!("{} :: case {} op#{} `{}`: {}", class, c.id, k, op, why));
        };
        let ins = |set: &mut Vec<bool>, o: usize, s: usize| {
            if set.len() < o + s {
                set.resize(o + s, false);
            }
            for x in o..o + s {
                set[x] = true;
            }
        };
        let pop = |set: &mut Vec<bool>| -> usize {
            let k = set.iter().take_while(|b| **b).count();
            set.drain(0..k);
            k
        };
        match t[0] {
            "add" => {
                let (o, s): (usize, usize) = (t[1].parse().unwrap(), t[2].parse().unwrap());
                let mut want = set.clone();
                ins(&mut want, o, s);
                let r = a.add(o, s);
                let need = canon(&want).len();
                *stats.entry(if r.is_ok() { "add_ok" } else { "add_err" }.into()).or_default() += 1;
                if r.is_ok() {
                    if need > n {
                        fail("add-accepted-over-capacity", format!("needs {} ranges", need));
                    }
                    set = want;
                } else {
                    if need <= n {
                        fail("add-refused-though-fits", format!("needs only {} ranges (max {})", need, n));
                    }
                    let after: Vec<(usize, usize)> = a.iter_data().collect();
                    if after != before {
                        fail("refused-add-changed-state", format!("{:?} -> {:?}", before, after));
                    }
                }
            }
            "rf" => {
                let r = a.remove_front();
                let want = pop(&mut set);
                if r != want {
                    fail("remove-front-size", format!("got {} want {}", r, want));
                }
            }
            "atrf" => {
                let (o, s): (usize, usize) = (t[1].parse().unwrap(), t[2].parse().unwrap());
                let mut want = set.clone();
                ins(&mut want, o, s);
                let need = canon(&want).len();
                let r = a.add_then_remove_front(o, s);
                match r {
                    Ok(k) => {
                        *stats.entry("atrf_ok".into()).or_default() += 1;
                        set = want;
                        let w = pop(&mut set);
                        if k != w {
                            fail("atrf-size", format!("got {} want {}", k, w));
                        }
                    }
                    Err(_) => {
                        *stats.entry("atrf_err".into()).or_default() += 1;
                        if o == 0 {
                            fail("atrf-offset0-failed", "".into());
                        }
                        if need <= n {
                            fail("atrf-refused-though-fits", format!("needs only {} ranges", need));
                        }
                        let after: Vec<(usize, usize)> = a.iter_data().collect();
                        if after != before {
                            fail("refused-atrf-changed-state", format!("{:?} -> {:?}", before, after));
                        }
                    }
                }
            }
            "clear" => {
                a.clear();
                set.clear();
            }
            _ => panic!(),
        }
        while set.last() == Some(&false) {
            set.pop();
        }
        let got: Vec<(usize, usize)> = a.iter_data().collect();
        let want = canon(&set);
        if got != want {
            fail("ranges-differ-from-union", format!("got {:?} want {:?}", got, want));
            return;
        }
        if got.len() > n {
            fail("more-ranges-than-capacity", format!("{}", got.len()));
        }
    }
}

/// Bounded-exhaustive exploration: every tracker state reachable with ranges inside [0, uni), every
/// operation with every offset/size inside the universe from each of them (breadth first; the
/// Assembler is Clone).  Each transition is checked against the bit-set shadow.  With `emit`, every
/// transition is also written as a case (path to the state + the op) for the correspondence.
fn exhaustive(uni: usize, n: usize, emit: Option<&mut dyn Write>) -> (usize, usize, Vec<String>) {
    use std::collections::{HashMap, VecDeque};
    let mut seen: HashMap<Vec<(usize, usize)>, Vec<String>> = HashMap::new();
    let mut queue: VecDeque<(Assembler, Vec<String>)> = VecDeque::new();
    seen.insert(vec![], vec![]);
    queue.push_back((Assembler::new(), vec![]));
    let mut ops: Vec<String> = vec!["rf".into(), "clear".into()];
    for o in 0..uni {
        for s in 0..=(uni - o) {
            ops.push(format!("add {} {}", o, s));
            ops.push(format!("atrf {} {}", o, s));
        }
    }
    let mut transitions = 0;
    let mut fails = vec![];
    let mut emit = emit;
    let mut k = 0;
    // inside a universe of `uni` bytes there are at most 2^uni visible states; anything beyond
    // means the tracker reports ranges outside the universe (a violation in itself)
    let state_limit = (1usize << uni.min(16)) + 16;
    while let Some((a, path)) = queue.pop_front() {
        if seen.len() > state_limit {
            fails.push(format!(
                "exhaustive-states-outside-universe :: more than {} distinct states reached inside universe {} (last path {:?})",
                state_limit, uni, path
            ));
            break;
        }
        for op in &ops {
            transitions += 1;
            let mut c = Case { id: format!("x{}-{}", uni, k), cfg: vec![("n".into(), n.to_string())], ops: path.clone() };
            c.ops.push(op.clone());
            k += 1;
            let mut f = vec![];
            let mut st = BTreeMap::new();
            oracle_case(&c, n, &mut f, &mut st);
            if !f.is_empty() && fails.len() < 10 {
                fails.extend(f);
            }
            if let Some(w) = emit.as_mut() {
                c.write(*w);
            }
            // successor state
            let mut b = a.clone();
            let t: Vec<&str> = op.split_whitespace().collect();
            match t[0] {
                "add" => {
                    let _ = b.add(t[1].parse().unwrap(), t[2].parse().unwrap());
                }
                "atrf" => {
                    let _ = b.add_then_remove_front(t[1].parse().unwrap(), t[2].parse().unwrap());
                }
                "rf" => {
                    b.remove_front();
                }
                _ => b.clear(),
            }
            let key: Vec<(usize, usize)> = b.iter_data().collect();
            if !seen.contains_key(&key) {
                let mut p2 = path.clone();
                p2.push(op.clone());
                seen.insert(key, p2.clone());
                queue.push_back((b, p2));
            }
        }
    }
    (seen.len(), transitions, fails)
}

fn main() {
    quiet_panics();
    let (sub, seed, n, tier) = args();
    let capn = cap();
    let stdout = std::io::stdout();
    let mut out = std::io::BufWriter::new(stdout.lock());
    match sub.as_str() {
        "cap" => writeln!(out, "{}", capn).unwrap(),
        "gen" => {
            let mut rng = Rng::new(seed);
            for i in 0..n {
                gen_case(&mut rng, format!("s{}-{}", seed, i), capn, &tier).write(&mut out);
            }
        }
        "run" => {
            for c in stdin_cases() {
                run_case(&c, &mut out);
            }
        }
        "oracle" => {
            let mut rng = Rng::new(seed ^ 0xA5A5);
            let mut fails = vec![];
            let mut stats = BTreeMap::new();
            let mut cases: Vec<Case> = vec![];
            for i in 0..n {
                cases.push(gen_case(&mut rng, format!("o{}-{}", seed, i), capn, &tier));
            }
            for c in &cases {
                let before = fails.len();
                oracle_case(c, capn, &mut fails, &mut stats);
                if fails.len() > before {
                    writeln!(out, "FAILCASE").unwrap();
                    c.write(&mut out);
                }
                if fails.len() > 20 {
                    break;
                }
            }
            for f in &fails {
                writeln!(out, "FAIL {}", f).unwrap();
            }
            let st: Vec<String> = stats.iter().map(|(k, v)| format!("{}:{}", jstr(k), v)).collect();
            writeln!(out, "STATS {{\"cases\":{},\"cap\":{},{}}}", cases.len(), capn, st.join(",")).unwrap();
        }
        "oracle-exh" | "gen-exh" => {
            // `n` is the universe size here; only shard 0 (seed ending in 000) does the work
            let uni = n.max(2);
            if seed % 1000 != 0 {
                if sub == "oracle-exh" {
                    writeln!(out, "STATS {{\"cases\":0}}").unwrap();
                }
                return;
            }
            if sub == "gen-exh" {
                exhaustive(uni, capn, Some(&mut out));
            } else {
                let (states, transitions, fails) = exhaustive(uni, capn, None);
                for f in &fails {
                    writeln!(out, "FAIL {}", f).unwrap();
                }
                writeln!(out, "STATS {{\"cases\":{},\"exh_universe\":{},\"exh_states\":{},\"exh_transitions\":{},\"cap\":{}}}", transitions, uni, states, transitions, capn).unwrap();
            }
        }
        "oracle-replay" => {
            let mut fails = vec![];
            let mut stats = BTreeMap::new();
            for c in stdin_cases() {
                oracle_case(&c, capn, &mut fails, &mut stats);
            }
            for f in &fails {
                writeln!(out, "FAIL {}", f).unwrap();
            }
        }
        x => panic!("unknown subcommand {}", x),
    }
}
