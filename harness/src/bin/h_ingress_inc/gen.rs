// Scenario generator for stream `ingress`: the finite class product (address classes x protocol
// variants x port relations x socket sets x interface configurations x media), enumerated
// exhaustively by index (thorough tier) or sampled (quick tier).

// ---- the little world all scenarios live in
const OWN_MAC: u64 = 0x0200_0000_0001;
const OTHER_MAC: u64 = 0x0200_0000_0099;
const GW_MAC: u64 = 0x0200_0000_00fe;
const OWN_EXT: u64 = 0x0200_0000_0000_0001;
const OTHER_EXT: u64 = 0x0200_0000_0000_0099;
const GW_EXT: u64 = 0x0200_0000_0000_00fe;
const OWN_PAN: u16 = 0xbeef;
const OTHER_PAN: u16 = 0x1234;

const fn v4(a: u8, b: u8, c: u8, d: u8) -> Ip {
    Ip::V4(((a as u32) << 24) | ((b as u32) << 16) | ((c as u32) << 8) | d as u32)
}
const fn v6(s: [u16; 8]) -> Ip {
    let mut x: u128 = 0;
    let mut i = 0;
    while i < 8 {
        x = (x << 16) | s[i] as u128;
        i += 1;
    }
    Ip::V6(x)
}

const OWN4: Ip = v4(10, 0, 0, 1);
const OWN4B: Ip = v4(172, 16, 5, 5);
const PEER4: Ip = v4(10, 0, 0, 2);
const GW4: Ip = v4(10, 0, 0, 254);
const JOINED4: Ip = v4(224, 1, 2, 3);
// a second IPv4 subnet / a second global IPv6 prefix of the interface
const OWN4S2: Ip = v4(192, 168, 1, 1);
const PEER4S2: Ip = v4(192, 168, 1, 2);
const OWN4S3: Ip = v4(172, 16, 9, 1);

const OWN6LL: Ip = v6([0xfe80, 0, 0, 0, 0x0000, 0x00ff, 0xfe00, 0x0001]);
const OWN6G: Ip = v6([0x2001, 0xdb8, 0, 0, 0, 0, 0xab, 0xcd01]);
const PEER6LL: Ip = v6([0xfe80, 0, 0, 0, 0x0000, 0x00ff, 0xfe00, 0x0002]);
const PEER6G: Ip = v6([0x2001, 0xdb8, 0, 0, 0, 0, 0, 2]);
const GW6: Ip = v6([0xfe80, 0, 0, 0, 0, 0, 0, 0xfe]);
const JOINED6: Ip = v6([0xff05, 0, 0, 0, 0, 0, 0, 0x77]);
const OWN6S2: Ip = v6([0x2001, 0xdb8, 1, 0, 0, 0, 0, 5]);
const PEER6S2: Ip = v6([0x2001, 0xdb8, 1, 0, 0, 0, 0, 2]);

fn src_classes(v4fam: bool) -> Vec<(&'static str, Ip)> {
    if v4fam {
        vec![
            ("peer-onlink", PEER4),
            ("peer-offlink", v4(198, 51, 100, 7)),
            ("own", OWN4),
            ("subnet-bcast", v4(10, 0, 0, 255)),
            ("limited-bcast", v4(255, 255, 255, 255)),
            ("multicast", v4(224, 0, 0, 5)),
            ("unspecified", v4(0, 0, 0, 0)),
            ("loopback", v4(127, 0, 0, 1)),
            ("peer-subnet2", PEER4S2),
            ("subnet2-bcast", v4(192, 168, 1, 255)),
            ("subnet3-bcast", v4(172, 16, 9, 3)),
        ]
    } else {
        vec![
            ("peer-ll", PEER6LL),
            ("peer-onlink", PEER6G),
            ("peer-offlink", v6([0x2001, 0xdb8, 0xffff, 0, 0, 0, 0, 7])),
            ("own", OWN6G),
            ("multicast", v6([0xff02, 0, 0, 0, 0, 0, 0, 5])),
            ("unspecified", v6([0; 8])),
            ("loopback", v6([0, 0, 0, 0, 0, 0, 0, 1])),
            ("peer-subnet2", PEER6S2),
        ]
    }
}

fn dst_classes(v4fam: bool) -> Vec<(&'static str, Ip)> {
    if v4fam {
        vec![
            ("own", OWN4),
            ("own2", OWN4B),
            ("other-onlink", v4(10, 0, 0, 77)),
            ("other-offlink", v4(203, 0, 113, 9)),
            ("subnet-bcast", v4(10, 0, 0, 255)),
            ("limited-bcast", v4(255, 255, 255, 255)),
            ("all-systems", v4(224, 0, 0, 1)),
            ("joined-group", JOINED4),
            ("unjoined-group", v4(224, 9, 9, 9)),
            ("unspecified", v4(0, 0, 0, 0)),
            ("loopback", v4(127, 0, 0, 1)),
            ("network-addr", v4(10, 0, 0, 0)),
            ("own-subnet2", OWN4S2),
            ("other-onlink-subnet2", v4(192, 168, 1, 77)),
            ("subnet2-bcast", v4(192, 168, 1, 255)),
            ("subnet3-bcast", v4(172, 16, 9, 3)),
        ]
    } else {
        vec![
            ("own-ll", OWN6LL),
            ("own", OWN6G),
            ("other-onlink", v6([0x2001, 0xdb8, 0, 0, 0, 0, 0, 0x77])),
            ("other-offlink", v6([0x2001, 0xdb8, 0xeeee, 0, 0, 0, 0, 9])),
            ("lookalike-unicast", v6([0x2001, 0xdb8, 5, 0, 0, 0, 0xab, 0xcd01])),
            ("all-nodes", v6([0xff02, 0, 0, 0, 0, 0, 0, 1])),
            ("solicited-own", v6([0xff02, 0, 0, 0, 0, 1, 0xffab, 0xcd01])),
            ("solicited-other", v6([0xff02, 0, 0, 0, 0, 1, 0xff12, 0x3456])),
            ("lookalike-mcast", v6([0xff05, 0, 0, 0, 0, 0, 0xab, 0xcd01])),
            ("lookalike-solicited", v6([0xff02, 0, 0, 0, 0, 1, 0xff99, 0xcd01])),
            ("joined-group", JOINED6),
            ("unjoined-group", v6([0xff05, 0, 0, 0, 0, 0, 0, 0x99])),
            ("unspecified", v6([0; 8])),
            ("loopback", v6([0, 0, 0, 0, 0, 0, 0, 1])),
            ("all-routers", v6([0xff02, 0, 0, 0, 0, 0, 0, 2])),
            ("own-subnet2", OWN6S2),
            ("other-onlink-subnet2", v6([0x2001, 0xdb8, 1, 0, 0, 0, 0, 0x77])),
            ("solicited-own-subnet2", v6([0xff02, 0, 0, 0, 0, 1, 0xff00, 0x0005])),
        ]
    }
}

/// link-layer destination classes: (name, ll, pan)
fn ll_classes(med: Med, v4fam: bool) -> Vec<(&'static str, Ll, Option<u16>)> {
    match med {
        Med::Ip => vec![("-", Ll::None, None)],
        Med::Eth => vec![
            ("own", Ll::Eth(OWN_MAC), None),
            ("other-station", Ll::Eth(OTHER_MAC), None),
            ("broadcast", Ll::Eth(0xffff_ffff_ffff), None),
            ("multicast", Ll::Eth(if v4fam { 0x0100_5e00_0001 } else { 0x3333_0000_0001 }), None),
        ],
        Med::M154 => vec![
            ("own", Ll::Ext(OWN_EXT), Some(OWN_PAN)),
            ("own-other-pan", Ll::Ext(OWN_EXT), Some(OTHER_PAN)),
            ("own-bcast-pan", Ll::Ext(OWN_EXT), Some(0xffff)),
            ("other-station", Ll::Ext(OTHER_EXT), Some(OWN_PAN)),
            ("broadcast", Ll::Short(0xffff), Some(OWN_PAN)),
            ("broadcast-other-pan", Ll::Short(0xffff), Some(OTHER_PAN)),
        ],
    }
}

fn hbh_variants() -> Vec<Vec<u8>> {
    vec![
        vec![0x01, 0x04, 0, 0, 0, 0],    // PadN only
        vec![0x05, 0x02, 0, 0, 0x01, 0], // router alert + PadN
        vec![0x1e, 0x00, 0x01, 0x02, 0, 0], // unknown, skip
        vec![0x5e, 0x00, 0x01, 0x02, 0, 0], // unknown, discard
        vec![0x9e, 0x00, 0x01, 0x02, 0, 0], // unknown, discard + param problem always
        vec![0xde, 0x00, 0x01, 0x02, 0, 0], // unknown, discard + param problem unless multicast
    ]
}

/// protocol variants with their port relation, flattened: (hbh, upper)
fn upper_variants(v4fam: bool) -> Vec<(Option<Vec<u8>>, Upper)> {
    let mut v = vec![];
    let tcp_kinds = [(Ctl::Syn, false, 0), (Ctl::Syn, true, 0), (Ctl::None, true, 0), (Ctl::Psh, true, 16), (Ctl::Rst, false, 0), (Ctl::Rst, true, 0), (Ctl::Fin, false, 0)];
    for (ctl, ack, len) in tcp_kinds {
        for dp in [80u16, 9, 4242] {
            for sp in [40000u16, 40001] {
                v.push((None, Upper::Tcp { sp, dp, ctl, ack, len }));
            }
        }
    }
    for dp in [5000u16, 5001, 9] {
        for sp in [40000u16, 53] {
            v.push((None, Upper::Udp { sp, dp, len: 10 }));
        }
    }
    for id in [0x1234u16, 0x9999] {
        v.push((None, Upper::EchoReq { id, len: 12 }));
        v.push((None, Upper::EchoRep { id, len: 12 }));
    }
    let hdr = if v4fam { 20 } else { 40 };
    for ty in if v4fam { [3u8, 11] } else { [1u8, 2] } {
        for q in [Quoted::Udp(5000), Quoted::Udp(6000), Quoted::Tcp(4242), Quoted::Tcp(9999), Quoted::Other] {
            let ql = match q {
                Quoted::Udp(_) => 12,
                Quoted::Tcp(_) => 20,
                Quoted::Other => 8,
            };
            v.push((None, Upper::IcmpErr { ty, q, len: 8 + hdr + ql }));
        }
    }
    v.push((None, Upper::Other { proto: 253, len: 8 }));
    if v4fam {
        v.push((None, Upper::Igmp));
    } else {
        let inner = [
            Upper::Udp { sp: 40000, dp: 9, len: 10 },
            Upper::Udp { sp: 40000, dp: 5000, len: 10 },
            Upper::IcmpErr { ty: 1, q: Quoted::Udp(5000), len: 8 + 40 + 12 },
            Upper::Tcp { sp: 40000, dp: 9, ctl: Ctl::Rst, ack: false, len: 0 },
            Upper::Tcp { sp: 40000, dp: 80, ctl: Ctl::Syn, ack: false, len: 0 },
            Upper::EchoReq { id: 0x1234, len: 12 },
        ];
        // neighbor discovery: target x source link-layer option x hop limit (the source and
        // destination classes of the product supply own / solicited-node / foreign / all-nodes
        // destinations and on-link / unspecified sources)
        let peer_ll = Ll::Eth(PEER_MAC); // replaced by the medium's form in scenario_at
        for tgt in [OWN6G, OWN6LL, v6([0x2001, 0xdb8, 0, 0, 0, 0, 0, 0x77]), v6([0xff02, 0, 0, 0, 0, 0, 0, 1]), v6([0; 8]), OWN6S2] {
            for ll in [Ll::None, peer_ll, Ll::Eth(0xffff_ffff_ffff)] {
                for hl in [255u8, 64] {
                    v.push((None, Upper::Ns { tgt, ll, hl }));
                }
            }
        }
        v.push((None, Upper::Na { tgt: PEER6G, ll: peer_ll, hl: 255 }));
        v.push((None, Upper::Na { tgt: OWN6G, ll: Ll::None, hl: 255 }));
        for h in hbh_variants() {
            for u in &inner {
                v.push((Some(h.clone()), u.clone()));
            }
        }
    }
    v
}

fn sock_set(which: usize, v4fam: bool) -> Vec<SockSpec> {
    let (own, peer) = if v4fam { (OWN4, PEER4) } else { (OWN6G, PEER6G) };
    match which {
        0 => vec![],
        1 => vec![
            SockSpec::TcpL(None, 80),
            SockSpec::TcpC(own, 4242, peer, 40000),
            SockSpec::Udp(None, 5000),
            SockSpec::Udp(Some(own), 5001),
            SockSpec::Icmp(IcmpBind::Ident(0x1234)),
            SockSpec::Icmp(IcmpBind::Udp(None, 5000)),
            SockSpec::Icmp(IcmpBind::Tcp(Some(own), 4242)),
            SockSpec::Dns(vec![peer]),
        ],
        // the socket set of the egress scenarios: no connecting socket (its SYN retransmissions
        // would interleave with the observed event); UDP sockets at the same indices as in set 1
        3 => vec![
            SockSpec::TcpL(None, 80),
            SockSpec::TcpX,
            SockSpec::Udp(None, 5000),
            SockSpec::Udp(Some(own), 5001),
            SockSpec::Icmp(IcmpBind::Ident(0x1234)),
        ],
        _ => vec![
            SockSpec::Raw(Some(if v4fam { 4 } else { 6 }), Some(17)),
            SockSpec::TcpL(Some(own), 80),
            SockSpec::Udp(Some(own), 5000),
            SockSpec::Raw(None, Some(6)),
            SockSpec::TcpX,
            SockSpec::Icmp(IcmpBind::Unspec),
        ],
    }
}

/// (interface configuration, socket set) pairs per medium / family
fn cfg_pairs(med: Med, v4fam: bool, wide: bool) -> Vec<(usize, usize)> {
    if wide {
        // interfaces with three / four addresses (harness built with IFACE_MAX_ADDR_COUNT = 4)
        return vec![(10, 1), (11, 1), (10, 2)];
    }
    let mut v = vec![(0, 0), (0, 1), (0, 2)];
    if med != Med::Ip {
        v.push((1, 0)); // empty neighbor cache
    }
    v.push((2, 1));
    if v4fam {
        v.push((3, 1)); // two IPv4 subnets, both orders
        v.push((4, 1));
    } else {
        v.push((3, 1));
        v.push((4, 1));
        if med == Med::M154 {
            v.push((5, 1));
        }
        v.push((6, 1)); // two global IPv6 prefixes, both orders
        v.push((7, 1));
    }
    v
}

fn base_scn(med: Med, v4fam: bool, cfg: usize, socks: usize, mtu: Option<usize>) -> Scn {
    let (hw, gw_ll, peer_ll) = match med {
        Med::Ip => (Ll::None, Ll::None, Ll::None),
        Med::Eth => (Ll::Eth(OWN_MAC), Ll::Eth(GW_MAC), Ll::Eth(PEER_MAC)),
        Med::M154 => (Ll::Ext(OWN_EXT), Ll::Ext(GW_EXT), Ll::Ext(PEER_EXT)),
    };
    let mut s = Scn {
        med,
        anyip: false,
        mtu: mtu.unwrap_or(match med {
            Med::Ip => 1500,
            Med::Eth => 1514,
            Med::M154 => 127,
        }),
        hw,
        pan: if med == Med::M154 { Some(OWN_PAN) } else { None },
        addrs: vec![],
        groups: vec![],
        routes: vec![],
        neigh: vec![],
        socks: sock_set(socks, v4fam),
        ev: Event::TxConnect { dst: OWN4, dport: 1 },
    };
    let mut full_neigh = true;
    if v4fam {
        match cfg {
            0 | 1 => {
                s.addrs = vec![(OWN4, 24), (OWN4B, 32)];
                s.groups = vec![JOINED4];
                full_neigh = cfg == 0;
            }
            2 => {
                s.addrs = vec![(OWN4, 24), (OWN6LL, 64)];
                s.anyip = true;
            }
            3 => s.addrs = vec![(OWN4S2, 24), (OWN4, 24)],
            4 => s.addrs = vec![(OWN4, 24), (OWN4S2, 24)],
            10 => s.addrs = vec![(OWN4S3, 30), (OWN4S2, 24), (OWN4, 24), (OWN6LL, 64)],
            _ => s.addrs = vec![(OWN4, 24), (OWN6LL, 64), (OWN4S2, 24), (OWN6G, 64)],
        }
        s.routes = vec![(v4(0, 0, 0, 0), 0, GW4)];
        if full_neigh && med == Med::Eth {
            s.neigh = vec![(PEER4, peer_ll), (GW4, gw_ll)];
            if cfg >= 3 {
                s.neigh.push((PEER4S2, peer_ll));
            }
        }
    } else {
        match cfg {
            0 | 1 | 4 | 5 => {
                s.addrs = vec![(OWN6LL, 64), (OWN6G, 64)];
                // joining a group on IEEE 802.15.4 makes the first poll panic (the MLD report reaches
                // IpPayload::as_sixlowpan_next_header's unreachable!()): reported to C03, avoided here
                s.groups = if med == Med::M154 { vec![] } else { vec![JOINED6] };
                full_neigh = cfg != 1;
                s.anyip = cfg == 4;
                if cfg == 5 {
                    s.pan = None;
                }
            }
            2 => {
                s.addrs = if med == Med::M154 { vec![(OWN6G, 64)] } else { vec![(OWN6G, 64), (OWN4, 24)] };
            }
            3 => {
                // no IPv6 address at all (802.15.4 cannot carry the IPv4 one: leave it empty there)
                s.addrs = if med == Med::M154 { vec![] } else { vec![(OWN4, 24)] };
            }
            6 => s.addrs = vec![(OWN6G, 64), (OWN6S2, 64)],
            7 => s.addrs = vec![(OWN6S2, 64), (OWN6G, 64)],
            10 => s.addrs = if med == Med::M154 { vec![(OWN6LL, 64), (OWN6S2, 64), (OWN6G, 64)] } else { vec![(OWN4, 24), (OWN6LL, 64), (OWN6S2, 64), (OWN6G, 64)] },
            _ => s.addrs = if med == Med::M154 { vec![(OWN6G, 64), (OWN6S2, 56), (OWN6LL, 64)] } else { vec![(OWN6G, 64), (OWN6S2, 56), (OWN6LL, 64), (OWN4S2, 24)] },
        }
        s.routes = vec![(v6([0; 8]), 0, GW6)];
        let has_v6 = s.addrs.iter().any(|(a, _)| matches!(a, Ip::V6(_)));
        if full_neigh && med != Med::Ip && has_v6 {
            s.neigh = vec![(PEER6LL, peer_ll), (PEER6G, peer_ll), (GW6, gw_ll)];
            if cfg >= 6 {
                s.neigh.push((PEER6S2, peer_ll));
            }
        }
    }
    s
}

struct Segment {
    med: Med,
    v4fam: bool,
    tx: bool,
    dims: Vec<usize>,
}

fn tx_dsts(v4fam: bool) -> Vec<Ip> {
    if v4fam {
        vec![PEER4, v4(198, 51, 100, 7), v4(10, 0, 0, 77), v4(10, 0, 0, 255), v4(255, 255, 255, 255), JOINED4, v4(127, 0, 0, 1), OWN4, OWN4B, PEER4S2, v4(192, 168, 1, 255)]
    } else {
        vec![
            PEER6LL,
            PEER6G,
            v6([0x2001, 0xdb8, 0xffff, 0, 0, 0, 0, 7]),
            v6([0x2001, 0xdb8, 0, 0, 0, 0, 0, 0x77]),
            v6([0xfe80, 0, 0, 0, 0, 0, 0, 0x77]),
            v6([0xff02, 0, 0, 0, 0, 0, 0, 1]),
            JOINED6,
            v6([0xff0e, 0, 0, 0, 0, 0, 0, 0x99]),
            v6([0, 0, 0, 0, 0, 0, 0, 1]),
            OWN6G,
            PEER6S2,
        ]
    }
}

// tx axes: cfg pair (4), sender (udp wildcard, udp bound, tcp connect), dst, (mtu, len) point (8)
fn tx_points(med: Med, v4fam: bool) -> Vec<(Option<usize>, usize)> {
    let l2 = if med == Med::Eth { 14 } else { 0 };
    let hdr = if v4fam { 28 } else { 48 };
    if med == Med::M154 {
        return vec![(None, 8), (None, 40), (None, 90), (None, 300)];
    }
    let small = if v4fam { 576 } else { 1280 };
    vec![
        (None, 8),
        (None, 1500 - hdr),
        (None, 1500 - hdr + 1),
        (None, 1600),
        (Some(small + l2), small - hdr),
        (Some(small + l2), small - hdr + 1),
        (Some(small + l2), 1472),
        (Some(small + l2), 1473),
    ]
}

fn tx_pairs(v4fam: bool, wide: bool) -> Vec<(usize, usize)> {
    if wide {
        vec![(10, 3), (11, 3)]
    } else if v4fam {
        vec![(0, 3), (1, 3), (2, 3), (3, 3), (4, 3)]
    } else {
        vec![(0, 3), (1, 3), (2, 3), (3, 3), (6, 3), (7, 3)]
    }
}

fn segments(wide: bool) -> Vec<Segment> {
    let mut v = vec![];
    for (med, v4fam) in [(Med::Ip, true), (Med::Eth, true), (Med::Ip, false), (Med::Eth, false), (Med::M154, false)] {
        v.push(Segment {
            med,
            v4fam,
            tx: false,
            dims: vec![cfg_pairs(med, v4fam, wide).len(), ll_classes(med, v4fam).len(), src_classes(v4fam).len(), dst_classes(v4fam).len(), upper_variants(v4fam).len()],
        });
        v.push(Segment { med, v4fam, tx: true, dims: vec![tx_pairs(v4fam, wide).len(), 3, tx_dsts(v4fam).len(), tx_points(med, v4fam).len()] });
    }
    v
}

fn product_size(wide: bool) -> usize {
    segments(wide).iter().map(|s| s.dims.iter().product::<usize>()).sum()
}

fn decode(mut i: usize, dims: &[usize]) -> Vec<usize> {
    let mut v = vec![0; dims.len()];
    for k in (0..dims.len()).rev() {
        v[k] = i % dims[k];
        i /= dims[k];
    }
    v
}

/// the scenario with product index `idx`
fn scenario_at(idx: usize, wide: bool) -> Scn {
    let mut i = idx;
    for seg in segments(wide) {
        let sz: usize = seg.dims.iter().product();
        if i >= sz {
            i -= sz;
            continue;
        }
        let d = decode(i, &seg.dims);
        if !seg.tx {
            let (cfg, socks) = cfg_pairs(seg.med, seg.v4fam, wide)[d[0]];
            let mut s = base_scn(seg.med, seg.v4fam, cfg, socks, None);
            let (_, ll, pan) = ll_classes(seg.med, seg.v4fam)[d[1]].clone();
            let (_, src) = src_classes(seg.v4fam)[d[2]];
            let (_, dst) = dst_classes(seg.v4fam)[d[3]];
            let (hbh, mut upper) = upper_variants(seg.v4fam)[d[4]].clone();
            // the link-layer address option has the form of the medium
            if let Upper::Ns { ll, .. } | Upper::Na { ll, .. } = &mut upper {
                if seg.med == Med::M154 {
                    *ll = match *ll {
                        Ll::Eth(0xffff_ffff_ffff) => Ll::Short(0xffff),
                        Ll::Eth(_) => Ll::Ext(PEER_EXT),
                        x => x,
                    };
                }
            }
            s.ev = Event::Rx(Rx { ll, pan, src, dst, hbh, upper });
            return s;
        } else {
            let pairs = tx_pairs(seg.v4fam, wide);
            let (cfg, socks) = pairs[d[0]];
            let (mtu, len) = tx_points(seg.med, seg.v4fam)[d[3]];
            // configuration 1 = empty neighbor cache exists only on media with neighbors
            let cfg = if seg.med == Med::Ip && cfg == 1 { 0 } else { cfg };
            let mut s = base_scn(seg.med, seg.v4fam, cfg, socks, mtu);
            let dst = tx_dsts(seg.v4fam)[d[2]];
            s.ev = match d[1] {
                0 => Event::TxUdp { sock: 2, dst, dport: 7000, len },
                1 => Event::TxUdp { sock: 3, dst, dport: 7000, len },
                _ => Event::TxConnect { dst, dport: 7000 },
            };
            return s;
        }
    }
    panic!("index {} outside the product", idx);
}

/// quick tier: sample the product and perturb what does not change a class (lengths, unrelated
/// ports); thorough tier: shard `seed % 1000` enumerates indices [k*n, (k+1)*n)
fn gen_scenarios(seed: u64, n: usize, tier: &str, prefix: &str, wide: bool) -> Vec<(String, Scn)> {
    let total = product_size(wide);
    let mut out = vec![];
    if tier == "thorough" {
        let k = (seed % 1000) as usize;
        for i in (k * n)..((k + 1) * n).min(total) {
            out.push((format!("{}x{}", prefix, i), scenario_at(i, wide)));
        }
        return out;
    }
    let mut rng = Rng::new(seed);
    // the egress scenarios are a small part of the product: give them one case in six
    let mut tx_ranges: Vec<(usize, usize)> = vec![];
    let mut off = 0;
    for seg in segments(wide) {
        let sz: usize = seg.dims.iter().product();
        if seg.tx {
            tx_ranges.push((off, sz));
        }
        off += sz;
    }
    let tx_total: usize = tx_ranges.iter().map(|r| r.1).sum();
    for j in 0..n {
        let i = if rng.chance(1, 6) {
            let mut k = rng.below(tx_total as u64) as usize;
            let mut idx = 0;
            for (o, sz) in &tx_ranges {
                if k < *sz {
                    idx = o + k;
                    break;
                }
                k -= sz;
            }
            idx
        } else {
            rng.below(total as u64) as usize
        };
        let mut s = scenario_at(i, wide);
        if let Event::Rx(rx) = &mut s.ev {
            match &mut rx.upper {
                Upper::Tcp { sp, dp, len, ctl, .. } => {
                    if *ctl == Ctl::Psh && rng.chance(1, 2) {
                        *len = rng.range(1, 400) as usize;
                        if s.med == Med::M154 {
                            *len %= 30; // an 802.15.4 frame carries at most 127 octets
                        }
                    }
                    if *dp == 9 && rng.chance(1, 2) {
                        *dp = rng.range(1024, 30000) as u16;
                    }
                    if *sp == 40001 && rng.chance(1, 2) {
                        *sp = rng.range(40001, 60000) as u16;
                    }
                }
                Upper::Udp { dp, len, .. } => {
                    if rng.chance(1, 2) {
                        *len = rng.range(0, 1400) as usize;
                        if s.med == Med::M154 {
                            *len %= 40;
                        }
                    }
                    if *dp == 9 && rng.chance(1, 2) {
                        *dp = rng.range(1024, 4999) as u16;
                    }
                }
                Upper::EchoReq { len, id } | Upper::EchoRep { len, id } => {
                    if rng.chance(1, 2) {
                        *len = rng.range(0, 1400) as usize;
                        if s.med == Med::M154 {
                            *len %= 40;
                        }
                    }
                    if *id == 0x9999 {
                        *id = rng.range(0x2000, 0xffff) as u16;
                    }
                }
                Upper::Other { len, proto } => {
                    if rng.chance(1, 2) {
                        *len = rng.range(0, 1400) as usize;
                        if s.med == Med::M154 {
                            *len %= 40;
                        }
                        *proto = *rng.pick(&[253u8, 254, 99, 47, 132]);
                    }
                }
                _ => {}
            }
        }
        if rng.chance(1, 2) {
            randomize_world(&mut s, &mut rng);
        }
        out.push((format!("{}{}-{}", prefix, seed, j), s));
    }
    out
}

/// hand-picked witnesses of the defects found with this table (kept in corpus/C11, corpus/C10)
fn witnesses() -> Vec<(&'static str, Scn)> {
    let rx4 = |med: Med, socks: usize, ll: Ll, src: Ip, dst: Ip, upper: Upper| {
        let mut s = base_scn(med, true, 0, socks, None);
        s.ev = Event::Rx(Rx { ll, pan: None, src, dst, hbh: None, upper });
        s
    };
    let rx6 = |med: Med, cfg: usize, socks: usize, ll: Ll, src: Ip, dst: Ip, hbh: Option<Vec<u8>>, upper: Upper| {
        let mut s = base_scn(med, false, cfg, socks, None);
        let pan = if med == Med::M154 { Some(OWN_PAN) } else { None };
        s.ev = Event::Rx(Rx { ll, pan, src, dst, hbh, upper });
        s
    };
    let syn = |dp: u16| Upper::Tcp { sp: 40001, dp, ctl: Ctl::Syn, ack: false, len: 0 };
    let own_eth = Ll::Eth(OWN_MAC);
    let send_all = Some(vec![0x9e, 0x00, 0x01, 0x02, 0, 0]);
    vec![
        // D5: SYN to the subnet broadcast address: RST from 10.0.0.255, listener killed
        ("d5-syn-to-subnet-broadcast-listener-ip", rx4(Med::Ip, 1, Ll::None, PEER4, v4(10, 0, 0, 255), syn(80))),
        ("d5-syn-to-subnet-broadcast-closed-port-eth", rx4(Med::Eth, 1, Ll::Eth(0xffff_ffff_ffff), PEER4, v4(10, 0, 0, 255), syn(9))),
        ("d5-syn-to-joined-multicast-group-ip", rx4(Med::Ip, 1, Ll::None, PEER4, JOINED4, syn(80))),
        ("d5-syn-to-all-nodes-v6-ip", rx6(Med::Ip, 0, 1, Ll::None, PEER6LL, v6([0xff02, 0, 0, 0, 0, 0, 0, 1]), None, syn(80))),
        // D12: UDP to ff02::1, nobody listening: ICMPv6 port unreachable
        ("d12-udp-to-all-nodes-no-listener-ip", rx6(Med::Ip, 0, 0, Ll::None, PEER6LL, v6([0xff02, 0, 0, 0, 0, 0, 0, 1]), None, Upper::Udp { sp: 40000, dp: 9, len: 10 })),
        ("d12-udp-to-all-nodes-no-listener-eth", rx6(Med::Eth, 0, 0, Ll::Eth(0x3333_0000_0001), PEER6LL, v6([0xff02, 0, 0, 0, 0, 0, 0, 1]), None, Upper::Udp { sp: 40000, dp: 9, len: 10 })),
        // has_solicited_node: foreign unicast / unjoined multicast sharing the low 16 bits with an own address
        ("solnode-lookalike-unicast-udp-delivered-ip", rx6(Med::Ip, 0, 1, Ll::None, PEER6G, v6([0x2001, 0xdb8, 5, 0, 0, 0, 0xab, 0xcd01]), None, Upper::Udp { sp: 40000, dp: 5000, len: 10 })),
        ("solnode-lookalike-unicast-echo-answered-eth", rx6(Med::Eth, 0, 0, own_eth, PEER6G, v6([0x2001, 0xdb8, 5, 0, 0, 0, 0xab, 0xcd01]), None, Upper::EchoReq { id: 1, len: 12 })),
        ("solnode-lookalike-multicast-udp-delivered-ip", rx6(Med::Ip, 0, 1, Ll::None, PEER6G, v6([0xff05, 0, 0, 0, 0, 0, 0xab, 0xcd01]), None, Upper::Udp { sp: 40000, dp: 5000, len: 10 })),
        ("solnode-lookalike-low16-only-ip", rx6(Med::Ip, 0, 1, Ll::None, PEER6G, v6([0xff02, 0, 0, 0, 0, 1, 0xff99, 0xcd01]), None, Upper::Udp { sp: 40000, dp: 5000, len: 10 })),
        // hop-by-hop options processed before the destination filter: foreign packet answered
        ("hbh-foreign-unicast-answered-with-param-problem-eth", rx6(Med::Eth, 0, 0, own_eth, PEER6G, v6([0x2001, 0xdb8, 0, 0, 0, 0, 0, 0x77]), send_all.clone(), Upper::Udp { sp: 40000, dp: 9, len: 10 })),
        // an ICMPv6 error / a TCP reset answered with a parameter problem
        ("hbh-param-problem-about-icmpv6-error-ip", rx6(Med::Ip, 0, 0, Ll::None, PEER6G, OWN6G, send_all.clone(), Upper::IcmpErr { ty: 1, q: Quoted::Udp(5000), len: 60 })),
        ("hbh-param-problem-about-tcp-rst-ip", rx6(Med::Ip, 0, 0, Ll::None, PEER6G, OWN6G, send_all.clone(), Upper::Tcp { sp: 40000, dp: 9, ctl: Ctl::Rst, ack: false, len: 0 })),
        // ::1 from the network
        ("loopback-dst-echo-answered-from-loopback-eth", rx6(Med::Eth, 0, 0, own_eth, PEER6LL, v6([0, 0, 0, 0, 0, 0, 0, 1]), None, Upper::EchoReq { id: 1, len: 12 })),
        ("loopback-dst-udp-delivered-ip", rx6(Med::Ip, 0, 1, Ll::None, PEER6G, v6([0, 0, 0, 0, 0, 0, 0, 1]), None, Upper::Udp { sp: 40000, dp: 5000, len: 10 })),
        ("loopback-dst-syn-reaches-listener-ip", rx6(Med::Ip, 0, 1, Ll::None, PEER6G, v6([0, 0, 0, 0, 0, 0, 0, 1]), None, syn(80))),
        // interface with two IPv4 subnets: the directed broadcast of the SECOND one as source / destination
        // (regression cases for is_broadcast_v4 looking at every configured subnet)
        ("two-subnets-second-broadcast-as-source-udp-ip", {
            let mut s = base_scn(Med::Ip, true, 3, 1, None);
            s.ev = Event::Rx(Rx { ll: Ll::None, pan: None, src: v4(10, 0, 0, 255), dst: OWN4S2, hbh: None, upper: Upper::Udp { sp: 40000, dp: 9, len: 10 } });
            s
        }),
        ("two-subnets-second-broadcast-as-destination-syn-eth", {
            let mut s = base_scn(Med::Eth, true, 3, 1, None);
            s.ev = Event::Rx(Rx { ll: Ll::Eth(0xffff_ffff_ffff), pan: None, src: PEER4, dst: v4(10, 0, 0, 255), hbh: None, upper: syn(80) });
            s
        }),
        ("two-subnets-second-broadcast-as-destination-udp-closed-ip", {
            let mut s = base_scn(Med::Ip, true, 4, 1, None);
            s.ev = Event::Rx(Rx { ll: Ll::None, pan: None, src: PEER4, dst: v4(192, 168, 1, 255), hbh: None, upper: Upper::Udp { sp: 40000, dp: 9, len: 10 } });
            s
        }),
        // unicast IP inside a link-layer broadcast / multicast frame answered with an error
        ("ll-broadcast-unicast-ip-udp-port-unreachable-eth", rx4(Med::Eth, 0, Ll::Eth(0xffff_ffff_ffff), PEER4, OWN4, Upper::Udp { sp: 40000, dp: 9, len: 10 })),
        ("ll-multicast-unicast-ip-syn-rst-eth", rx4(Med::Eth, 0, Ll::Eth(0x0100_5e00_0001), PEER4, OWN4, syn(9))),
        ("ll-broadcast-unicast-ip6-udp-port-unreachable-eth", rx6(Med::Eth, 0, 0, Ll::Eth(0xffff_ffff_ffff), PEER6G, OWN6G, None, Upper::Udp { sp: 40000, dp: 9, len: 10 })),
        ("ll-broadcast-unicast-ip6-udp-port-unreachable-154", rx6(Med::M154, 0, 0, Ll::Short(0xffff), PEER6G, OWN6G, None, Upper::Udp { sp: 40000, dp: 9, len: 10 })),
    ]
}

// ---- quick tier only: move the scenario into a random "world" (other subnet / prefix length /
// host numbers, other IPv6 prefix and interface identifier) so that the address algebra is
// exercised beyond the representative addresses of the class product
fn map_scn_ips(s: &mut Scn, f: &dyn Fn(Ip) -> Ip) {
    for a in s.addrs.iter_mut() {
        a.0 = f(a.0);
    }
    for g in s.groups.iter_mut() {
        *g = f(*g);
    }
    for r in s.routes.iter_mut() {
        r.2 = f(r.2);
    }
    for n in s.neigh.iter_mut() {
        n.0 = f(n.0);
    }
    for k in s.socks.iter_mut() {
        match k {
            SockSpec::TcpL(a, _) | SockSpec::Udp(a, _) | SockSpec::Icmp(IcmpBind::Udp(a, _)) | SockSpec::Icmp(IcmpBind::Tcp(a, _)) => {
                if let Some(x) = a {
                    *x = f(*x);
                }
            }
            SockSpec::TcpC(la, _, ra, _) => {
                *la = f(*la);
                *ra = f(*ra);
            }
            SockSpec::Dns(l) => {
                for x in l.iter_mut() {
                    *x = f(*x);
                }
            }
            _ => {}
        }
    }
    match &mut s.ev {
        Event::Rx(rx) => {
            rx.src = f(rx.src);
            rx.dst = f(rx.dst);
            if let Upper::Ns { tgt, .. } | Upper::Na { tgt, .. } = &mut rx.upper {
                *tgt = f(*tgt);
            }
        }
        Event::TxUdp { dst, .. } | Event::TxConnect { dst, .. } => *dst = f(*dst),
    }
}

fn randomize_world(s: &mut Scn, rng: &mut Rng) {
    // IPv4: 10.0.0.0/24 -> net/plen; host .1 .2 .77 .254 .255 .0 keep their roles
    let plen: u8 = *rng.pick(&[8u8, 12, 16, 20, 24, 24, 25, 27, 30, 31]);
    let hostbits = 32 - plen as u32;
    let hostmask: u32 = if hostbits == 32 { u32::MAX } else { (1u32 << hostbits) - 1 };
    let base: u32 = match rng.below(3) {
        0 => 0x0a00_0000 | ((rng.next() as u32) & 0x00ff_ffff),
        1 => 0xc0a8_0000 | ((rng.next() as u32) & 0xffff),
        _ => 0x6440_0000 | ((rng.next() as u32) & 0x003f_ffff),
    } & !hostmask;
    let host = |h: u32| -> u32 {
        // canonical host number -> host number in the new subnet
        match h {
            0 => 0,
            255 => hostmask,
            254 => hostmask.wrapping_sub(1) & hostmask,
            1 => 1 & hostmask,
            2 => 2 & hostmask,
            x => (x.wrapping_mul(2654435761) >> 7) & hostmask,
        }
    };
    // IPv6: 2001:db8:0:0::/64 -> another global / unique-local prefix; the interface identifier
    // ::ab:cd01 -> a random one whose look-alikes keep their relation to it
    let p6: u128 = {
        let top: u128 = if rng.chance(1, 3) { 0xfd00 | (rng.next() as u128 & 0xff) } else { 0x2000 | (rng.next() as u128 & 0x1fff) };
        (top << 112) | ((rng.next() as u128 & 0xffff_ffff_ffff) << 64)
    };
    let iid: u128 = (rng.next() as u128) & 0xffff_ffff_ffff_ffff | 0x0100; // never ::0 / ::1
    let low24 = iid & 0xff_ffff;
    let plen6: u8 = *rng.pick(&[64u8, 64, 48, 56, 96, 120]);
    let v4world = plen != 24 || rng.chance(1, 2);
    let f = move |ip: Ip| -> Ip {
        match ip {
            Ip::V4(a) if v4world && (a >> 8) == 0x0a00_00 => Ip::V4(base | host(a & 0xff)),
            Ip::V6(a) => {
                let canon_prefix: u128 = 0x2001_0db8u128 << 96;
                let canon_iid: u128 = 0x00ab_cd01;
                if a >> 64 == canon_prefix >> 64 {
                    // addresses of the own /64: own address gets the new iid, the others keep theirs
                    let tail = a & 0xffff_ffff_ffff_ffff;
                    Ip::V6(p6 | if tail == canon_iid { iid } else { tail })
                } else if a == (0x2001_0db8_0005u128 << 80) | canon_iid {
                    Ip::V6(((0x2001_0db8_0005u128 << 80) & !0xffff_ffff_ffff_ffffu128) | iid) // look-alike unicast: same iid, foreign prefix
                } else if a == (0xff02u128 << 112) | (1u128 << 32) | 0xffab_cd01 {
                    Ip::V6((0xff02u128 << 112) | (1u128 << 32) | 0xff00_0000 | low24)
                } else if a == (0xff05u128 << 112) | canon_iid {
                    Ip::V6((0xff05u128 << 112) | low24)
                } else if a == (0xff02u128 << 112) | (1u128 << 32) | 0xff99_cd01 {
                    Ip::V6((0xff02u128 << 112) | (1u128 << 32) | 0xff00_0000 | ((low24 ^ 0x55_0000) & 0xff_ffff))
                } else {
                    Ip::V6(a)
                }
            }
            x => x,
        }
    };
    map_scn_ips(s, &f);
    for a in s.addrs.iter_mut() {
        match a.0 {
            Ip::V4(x) if v4world && (x & !hostmask) == base && a.1 == 24 => a.1 = plen,
            Ip::V6(x) if x >> 64 == p6 >> 64 => a.1 = plen6,
            _ => {}
        }
    }
    // the neighbor cache can only hold what process_arp accepts: unicast sources inside one of our subnets
    let addrs = s.addrs.clone();
    s.neigh.retain(|(ip, _)| match ip {
        Ip::V4(x) => {
            let uni = *x != 0 && *x != u32::MAX && (x >> 28) != 0xe;
            uni && addrs.iter().any(|(o, pl)| match o {
                Ip::V4(o) => {
                    let m: u32 = if *pl == 0 { 0 } else { u32::MAX << (32 - *pl as u32) };
                    (o & m) == (x & m)
                }
                _ => false,
            })
        }
        Ip::V6(x) => (x >> 120) != 0xff && *x != 0,
    });
    // duplicates (tiny subnets make roles coincide) would be filled twice: keep the last entry, as the cache does
    let mut seen: Vec<Ip> = vec![];
    let mut out = vec![];
    for (ip, ll) in s.neigh.iter().rev() {
        if !seen.contains(ip) {
            seen.push(*ip);
            out.push((*ip, *ll));
        }
    }
    out.reverse();
    s.neigh = out;
}
