// Implementation-side oracles for C11 (five clauses) and C10 (source rule, MTU, strict frame
// validator).  Address classes are computed here, independently of the stack and of the model.

fn o_own(s: &Scn) -> Vec<Ip> {
    s.addrs.iter().map(|(a, _)| *a).collect()
}
fn o_is_mcast(ip: &Ip) -> bool {
    match ip {
        Ip::V4(a) => (a >> 28) == 0xe,
        Ip::V6(a) => (a >> 120) == 0xff,
    }
}
fn o_is_unspec(ip: &Ip) -> bool {
    matches!(ip, Ip::V4(0) | Ip::V6(0))
}
fn o_is_loopback(ip: &Ip) -> bool {
    match ip {
        Ip::V4(a) => (a >> 24) == 127,
        Ip::V6(a) => *a == 1,
    }
}
/// limited broadcast or the directed broadcast of one of the interface's subnets (prefix < 31)
fn o_is_bcast(s: &Scn, ip: &Ip) -> bool {
    match ip {
        Ip::V4(a) => {
            if *a == 0xffff_ffff {
                return true;
            }
            s.addrs.iter().any(|(o, pl)| match o {
                Ip::V4(o) if *pl < 31 => {
                    let host: u32 = if *pl == 0 { 0xffff_ffff } else { (1u32 << (32 - *pl as u32)) - 1 };
                    (o | host) == *a
                }
                _ => false,
            })
        }
        Ip::V6(_) => false,
    }
}
fn o_unicast_src(s: &Scn, ip: &Ip) -> bool {
    !o_is_mcast(ip) && !o_is_unspec(ip) && !o_is_bcast(s, ip)
}
fn o_joined(s: &Scn, ip: &Ip) -> bool {
    if s.groups.contains(ip) {
        return true;
    }
    match ip {
        Ip::V4(a) => *a == 0xe000_0001,
        Ip::V6(a) => {
            *a == (0xff02u128 << 112) + 1
                || s.addrs.iter().any(|(o, _)| match o {
                    Ip::V6(o) if *o != 1 => *a == (0xff02u128 << 112) + (1u128 << 32) + 0xff00_0000 + (o & 0xff_ffff),
                    _ => false,
                })
        }
    }
}
fn o_ll_ok(s: &Scn, rx: &Rx) -> bool {
    match s.med {
        Med::Ip => true,
        Med::Eth => match rx.ll {
            Ll::Eth(a) => Ll::Eth(a) == s.hw || a == 0xffff_ffff_ffff || (a >> 40) & 1 == 1,
            _ => false,
        },
        Med::M154 => s.pan.is_none() || rx.pan == s.pan || rx.pan == Some(0xffff),
    }
}
fn o_ll_nonunicast(s: &Scn, rx: &Rx) -> bool {
    match (s.med, rx.ll) {
        (Med::Eth, Ll::Eth(a)) => a == 0xffff_ffff_ffff || (a >> 40) & 1 == 1,
        (Med::M154, Ll::Short(0xffff)) => true,
        _ => false,
    }
}
fn o_addressed_to_us(s: &Scn, rx: &Rx) -> bool {
    if !o_ll_ok(s, rx) {
        return false;
    }
    s.anyip || o_own(s).contains(&rx.dst) || o_is_bcast(s, &rx.dst) || o_joined(s, &rx.dst)
}

fn o_sock_matches(s: &Scn, k: &SockSpec, rx: &Rx) -> bool {
    let aok = |a: &Option<Ip>| a.is_none() || *a == Some(rx.dst);
    let v4 = matches!(rx.dst, Ip::V4(_));
    match (k, &rx.upper) {
        (SockSpec::TcpL(a, p), Upper::Tcp { dp, ctl, ack, .. }) => aok(a) && dp == p && *ctl == Ctl::Syn && !*ack,
        (SockSpec::TcpC(la, lp, ra, rp), Upper::Tcp { sp, dp, .. }) => rx.dst == *la && dp == lp && rx.src == *ra && sp == rp,
        // smoltcp's documented UDP rule: a socket bound to an address also gets broadcasts and
        // multicasts addressed to its port (DESIGN §10)
        (SockSpec::Udp(a, p), Upper::Udp { dp, .. }) => dp == p && (aok(a) || o_is_bcast(s, &rx.dst) || o_is_mcast(&rx.dst)),
        (SockSpec::Icmp(IcmpBind::Ident(i)), Upper::EchoReq { id, .. }) | (SockSpec::Icmp(IcmpBind::Ident(i)), Upper::EchoRep { id, .. }) => i == id,
        (SockSpec::Icmp(IcmpBind::Udp(a, p)), Upper::IcmpErr { ty, q: Quoted::Udp(sp), .. }) => aok(a) && p == sp && (if v4 { *ty == 3 || *ty == 11 } else { *ty == 1 || *ty == 3 }),
        (SockSpec::Icmp(IcmpBind::Tcp(a, p)), Upper::IcmpErr { ty, q: Quoted::Tcp(sp), .. }) => aok(a) && p == sp && (if v4 { *ty == 3 || *ty == 11 } else { *ty == 1 || *ty == 3 }),
        (SockSpec::Raw(v, p), u) => {
            let proto: u8 = if rx.hbh.is_some() {
                0
            } else {
                match u {
                    Upper::Tcp { .. } => 6,
                    Upper::Udp { .. } => 17,
                    Upper::EchoReq { .. } | Upper::EchoRep { .. } | Upper::IcmpErr { .. } | Upper::Ns { .. } | Upper::Na { .. } => {
                        if v4 {
                            1
                        } else {
                            58
                        }
                    }
                    Upper::Igmp => 2,
                    Upper::Other { proto, .. } => *proto,
                }
            };
            v.map_or(true, |x| x == if v4 { 4 } else { 6 }) && p.map_or(true, |x| x == proto)
        }
        _ => false,
    }
}

fn o_validate(s: &Scn, e: &Em, extra_own: &[Ip], what: &str, fail: &mut dyn FnMut(&str, String), stats: &mut BTreeMap<String, u64>) {
    *stats.entry("frames_validated".into()).or_default() += 1;
    let mut own: Vec<Ip> = o_own(s);
    own.extend_from_slice(extra_own);
    let has_v6 = s.addrs.iter().any(|(a, _)| matches!(a, Ip::V6(_)));
    let loop_fallback = |e: &Em| e.src == Some(Ip::V6(1)) && !own.contains(&Ip::V6(1)) && (!has_v6 || e.dst == Some(Ip::V6(1)));
    match s.med {
        Med::Ip | Med::Eth => {
            let ownaddr: Vec<IpAddress> = own.iter().map(to_addr).collect();
            if let Err(m) = svh::tcpsim::validate_frame(medium_of(s.med), &e.raw, &ownaddr, s.mtu) {
                let slug = m.split(':').next().unwrap_or("unknown").trim().to_string();
                if slug == "src-not-own" && loop_fallback(e) {
                    fail("ipv6-loopback-source-fallback", format!("{} frame {}: {}", what, em_line(e), m));
                } else {
                    fail(&format!("c10-{}", slug), format!("{} frame {}: {} [{}]", what, em_line(e), m, hex(&e.raw[..e.raw.len().min(80)])));
                }
            }
        }
        Med::M154 => {
            // the shared validator does not decode 6LoWPAN: size and source rule only
            if e.raw.len() > 125 {
                fail("c10-over-mtu", format!("{} 802.15.4 frame of {} octets", what, e.raw.len()));
            }
            if e.kind == "other" {
                fail("c10-154-unparsable", format!("{} frame does not re-parse: {}", what, hex(&e.raw[..e.raw.len().min(60)])));
            }
            if let Some(src) = &e.src {
                let unspec_ok = matches!(e.kind.as_str(), "mld" | "ns" | "nhc-ext" | "rs");
                if o_is_unspec(src) {
                    if !unspec_ok {
                        fail("c10-src-unspecified", format!("{} frame {}", what, em_line(e)));
                    }
                } else if o_is_mcast(src) {
                    fail("c10-src-not-unicast", format!("{} frame {}", what, em_line(e)));
                } else if !own.contains(src) {
                    if loop_fallback(e) {
                        fail("ipv6-loopback-source-fallback", format!("{} frame {}", what, em_line(e)));
                    } else {
                        fail("c10-src-not-own", format!("{} frame {}", what, em_line(e)));
                    }
                }
            }
        }
    }
}

fn oracle_scn(id: &str, s: &Scn, fails: &mut Vec<String>, stats: &mut BTreeMap<String, u64>) {
    let r = catch(std::panic::AssertUnwindSafe(|| {
        // frames of the set-up phase are validated as well
        let mut w = build_world(s);
        let flush: Vec<Em> = w.dev.drain_tx().iter().map(|f| parse_emitted(s.med, f)).collect();
        drop(w);
        (flush, run_scn(s, true))
    }));
    let mut local: Vec<(String, String)> = vec![];
    {
        let mut fail = |class: &str, why: String| local.push((class.to_string(), why));
        match r {
            None => fail("ingress-panicked", "the interface panicked".into()),
            Some((flush, o)) => {
                let _ = o.panicked;
                // a UDP socket bound by the user to an address the interface does not own is
                // outside the source rule's precondition
                let misbound = match &s.ev {
                    Event::TxUdp { sock, .. } => match &s.socks[*sock] {
                        SockSpec::Udp(Some(a), _) if !o_own(s).contains(a) => vec![*a],
                        _ => vec![],
                    },
                    _ => vec![],
                };
                // neighbor advertisements sent while the cache was being filled answer with the
                // solicited target: ours by construction
                for e in &flush {
                    o_validate(s, e, &misbound, "set-up", &mut fail, stats);
                }
                match &s.ev {
                    Event::Rx(rx) => {
                        *stats.entry("rx".into()).or_default() += 1;
                        let to_us = o_addressed_to_us(s, rx);
                        let nonraw_changed: Vec<usize> = o.changed.iter().cloned().filter(|i| !matches!(s.socks[*i], SockSpec::Raw(..))).collect();
                        if !o.changed.is_empty() {
                            *stats.entry("rx_delivered".into()).or_default() += 1;
                        }
                        if !o.frames.is_empty() {
                            *stats.entry("rx_answered".into()).or_default() += 1;
                        }
                        if !to_us {
                            *stats.entry("rx_foreign".into()).or_default() += 1;
                            if !nonraw_changed.is_empty() {
                                fail("foreign-delivered", format!("not addressed to the interface but socket(s) {:?} changed", nonraw_changed));
                            }
                            if let Some(e) = o.frames.first() {
                                fail("foreign-answered", format!("not addressed to the interface but answered: {}", em_line(e)));
                            }
                        }
                        for i in &o.changed {
                            if !o_sock_matches(s, &s.socks[*i], rx) {
                                fail("socket-got-nonmatching", format!("socket #{} `{}` changed", i, sock_s(&s.socks[*i])));
                            }
                        }
                        let dst_nonuni = o_is_bcast(s, &rx.dst) || o_is_mcast(&rx.dst);
                        let ll_nonuni = o_ll_nonunicast(s, rx);
                        let src_nonuni = !o_unicast_src(s, &rx.src);
                        let about_error = matches!(rx.upper, Upper::IcmpErr { .. } | Upper::Tcp { ctl: Ctl::Rst, .. });
                        for e in &o.frames {
                            *stats.entry(format!("tx_{}", e.kind)).or_default() += 1;
                            if e.tcp_rst || e.icmp_err {
                                if dst_nonuni || ll_nonuni || src_nonuni {
                                    if e.kind.starts_with("param-") && o_is_mcast(&rx.dst) && !src_nonuni {
                                        fail("icmpv6-param-problem-to-multicast-dst", format!("{} in answer to a packet for {}", em_line(e), ip_s(&rx.dst)));
                                    } else {
                                        fail(
                                            "error-reply-to-nonunicast",
                                            format!("{} in answer to a packet with dst-nonunicast={} link-nonunicast={} src-nonunicast={}", em_line(e), dst_nonuni, ll_nonuni, src_nonuni),
                                        );
                                    }
                                }
                                if about_error {
                                    fail("error-about-error", format!("{} in answer to an ICMP error / TCP reset", em_line(e)));
                                }
                            }
                        }
                        if let Upper::Tcp { .. } = rx.upper {
                            let nonlocal_loop = o_is_loopback(&rx.dst) && !o_own(s).contains(&rx.dst);
                            if dst_nonuni || nonlocal_loop {
                                let mut ch: Vec<usize> = o.changed.iter().cloned().filter(|i| matches!(s.socks[*i], SockSpec::TcpL(..) | SockSpec::TcpC(..) | SockSpec::TcpX)).collect();
                                ch.extend(o.tcp_changed_after_poll.iter());
                                if !ch.is_empty() {
                                    fail("tcp-nonunicast-changed-state", format!("TCP segment for {} changed the state of socket(s) {:?}", ip_s(&rx.dst), ch));
                                }
                            }
                        }
                        // C10: replies; with any_ip the interface legitimately answers as the packet's destination
                        let mut extra = misbound.clone();
                        if s.anyip && !o_is_mcast(&rx.dst) && !o_is_bcast(s, &rx.dst) && !o_is_unspec(&rx.dst) {
                            extra.push(rx.dst);
                        }
                        // ... and advertises any unicast target it is solicited for (proxy)
                        if let Upper::Ns { tgt, .. } = &rx.upper {
                            if s.anyip && !o_is_mcast(tgt) && !o_is_unspec(tgt) {
                                extra.push(*tgt);
                            }
                        }
                        for e in o.frames.iter().chain(o.later_frames.iter()) {
                            o_validate(s, e, &extra, "reply", &mut fail, stats);
                        }
                    }
                    _ => {
                        *stats.entry("tx".into()).or_default() += 1;
                        for e in o.frames.iter().chain(o.later_frames.iter()) {
                            *stats.entry(format!("tx_{}", e.kind)).or_default() += 1;
                            o_validate(s, e, &misbound, "egress", &mut fail, stats);
                        }
                    }
                }
            }
        }
    }
    for (c, w) in local {
        fails.push(format!("{} :: case {}: {}", c, id, w));
    }
}
