//! Streams `dns` (resolver socket behind a real Interface, property C19) and `dnswire`
//! (wire::dns parsers on raw byte strings).  Subcommands:
//!   gen / run / oracle / oracle-replay            (stream dns)
//!   gen-wire / run-wire                            (stream dnswire)
//! Case format (stream dns), header: servers=<hex,hex|-> slots=<n> owned=<0|1> v4=<0|1> [ora=<kind>]
//!   query <name hex|-> <type>          start_query (name = the UTF-8 string, hex encoded)
//!   queryraw <raw hex|-> <type> <0|1>  start_query_raw (mdns flag)
//!   get <k> / cancel <k>               k = ordinal of the query/queryraw op in the case
//!   poll <us>                          Interface::poll at max(now, us)
//!   ppoll <d>                          Interface::poll at max(now, poll_at + d) (now + 1 s if no deadline)
//!   bpoll <us> / bppoll <d>            the same two while the device hands out no transmit token (tx_budget = 0)
//!   servers <hex,hex|->               update_servers (any time, also while queries are pending)
//!   hop <n|none>                       set_hop_limit(Some(n) / None); 0 panics by contract
//!   rsp k=<k> pk=<j> pd=<d> src=<addr hex> sport=<n> data=<hex|->
//!        datagram = data with bytes 0..2 XOR txid of query k, sent to port(query j) + pd
//! Transaction ids / ports are random in the implementation: they are learnt from a shadow
//! stack with the same random seed; the model driver uses its own table; everything printed is
//! relative (k = ordinal of the query a transmitted datagram belongs to, id bytes XOR txid).
use smoltcp::iface::{Config, Interface, SocketHandle, SocketSet};
use smoltcp::phy::Medium;
use smoltcp::socket::dns::{self, GetQueryResultError, MulticastDns, QueryHandle, StartQueryError};
use smoltcp::time::Instant;
use smoltcp::wire::{
    DnsFlags, DnsOpcode, DnsPacket, DnsQueryType, DnsQuestion, DnsRecord, DnsRecordData, DnsRepr,
    HardwareAddress, IpAddress, IpCidr, Ipv4Address, Ipv6Address,
};
use std::collections::BTreeMap;
use std::io::Write;
use std::panic::AssertUnwindSafe;
use std::sync::atomic::{AtomicU64, Ordering};
use std::sync::{Arc, Mutex};
use svh::dev::QDev;
use svh::*;

const MY4: [u8; 4] = [10, 0, 0, 1];
const MY6: [u8; 16] = [0xfd, 0, 0, 0, 0, 0, 0, 0, 0, 0, 0, 0, 0, 0, 0, 1];
const SRV4A: [u8; 4] = [10, 0, 0, 10];
const SRV4B: [u8; 4] = [10, 0, 0, 11];
const SRV6: [u8; 16] = [0xfd, 0, 0, 0, 0, 0, 0, 0, 0, 0, 0, 0, 0, 0, 0, 0x10];
const OTHER4: [u8; 4] = [10, 0, 0, 99];
const OTHER6: [u8; 16] = [0xfd, 0, 0, 0, 0, 0, 0, 0, 0, 0, 0, 0, 0, 0, 0, 0x99];

// ---------------------------------------------------------------- watchdog
static WATCH_START: AtomicU64 = AtomicU64::new(0);
fn now_ms() -> u64 {
    std::time::SystemTime::now().duration_since(std::time::UNIX_EPOCH).unwrap().as_millis() as u64
}
/// Arms a wall-clock watchdog: if one case runs longer than 10 s the process prints the hang
/// report produced by `on_hang` and exits with status 3.
fn watchdog(cur: Arc<Mutex<String>>, mode: &'static str) {
    std::thread::spawn(move || loop {
        std::thread::sleep(std::time::Duration::from_millis(200));
        let s = WATCH_START.load(Ordering::SeqCst);
        if s != 0 && now_ms() - s > 10_000 {
            let c = cur.lock().map(|g| g.clone()).unwrap_or_default();
            let out = std::io::stdout();
            let mut o = out.lock();
            if mode == "oracle" {
                let _ = writeln!(o, "FAILCASE\n{}", c.trim_end());
                let _ = writeln!(o, "FAIL hang :: a case did not finish within 10 s (loop in the DNS code)");
                let _ = writeln!(o, "STATS {{\"cases\":0,\"hang\":1}}");
            } else {
                let _ = writeln!(o, "HANG");
            }
            let _ = o.flush();
            std::process::exit(3);
        }
    });
}
fn watch_begin(cur: &Arc<Mutex<String>>, c: &Case) {
    let mut v = vec![];
    c.write(&mut v);
    *cur.lock().unwrap() = String::from_utf8(v).unwrap();
    WATCH_START.store(now_ms(), Ordering::SeqCst);
}
fn watch_end() {
    WATCH_START.store(0, Ordering::SeqCst);
}

// ---------------------------------------------------------------- frames
fn csum(parts: &[&[u8]]) -> u16 {
    let mut s: u32 = 0;
    for p in parts {
        let mut i = 0;
        while i + 1 < p.len() {
            s += ((p[i] as u32) << 8) | p[i + 1] as u32;
            i += 2;
        }
        if i < p.len() {
            s += (p[i] as u32) << 8;
        }
    }
    while s >> 16 != 0 {
        s = (s & 0xffff) + (s >> 16);
    }
    !(s as u16)
}

/// IP(+UDP) frame for Medium::Ip
fn udp_frame(src: &[u8], dst: &[u8], sport: u16, dport: u16, payload: &[u8]) -> Vec<u8> {
    let ulen = 8 + payload.len();
    let mut udp = vec![0u8; 8];
    udp[0..2].copy_from_slice(&sport.to_be_bytes());
    udp[2..4].copy_from_slice(&dport.to_be_bytes());
    udp[4..6].copy_from_slice(&(ulen as u16).to_be_bytes());
    udp.extend_from_slice(payload);
    let mut f;
    if src.len() == 4 {
        let mut ph = vec![];
        ph.extend_from_slice(src);
        ph.extend_from_slice(dst);
        ph.extend_from_slice(&[0, 17]);
        ph.extend_from_slice(&(ulen as u16).to_be_bytes());
        let mut c = csum(&[&ph, &udp]);
        if c == 0 {
            c = 0xffff;
        }
        udp[6..8].copy_from_slice(&c.to_be_bytes());
        f = vec![0x45, 0, 0, 0, 0, 1, 0x40, 0, 64, 17, 0, 0];
        let tl = (20 + ulen) as u16;
        f[2..4].copy_from_slice(&tl.to_be_bytes());
        f.extend_from_slice(src);
        f.extend_from_slice(dst);
        let hc = csum(&[&f]);
        f[10..12].copy_from_slice(&hc.to_be_bytes());
    } else {
        let mut ph = vec![];
        ph.extend_from_slice(src);
        ph.extend_from_slice(dst);
        ph.extend_from_slice(&(ulen as u32).to_be_bytes());
        ph.extend_from_slice(&[0, 0, 0, 17]);
        let mut c = csum(&[&ph, &udp]);
        if c == 0 {
            c = 0xffff;
        }
        udp[6..8].copy_from_slice(&c.to_be_bytes());
        f = vec![0x60, 0, 0, 0];
        f.extend_from_slice(&(ulen as u16).to_be_bytes());
        f.extend_from_slice(&[17, 64]);
        f.extend_from_slice(src);
        f.extend_from_slice(dst);
    }
    f.extend_from_slice(&udp);
    f
}

#[derive(Clone, Debug)]
enum Frame {
    Udp { dst: Vec<u8>, sport: u16, dport: u16, hop: u8, payload: Vec<u8> },
    Icmp,
    Other,
}

fn parse_frame(f: &[u8]) -> Frame {
    if f.is_empty() {
        return Frame::Other;
    }
    let (proto, dst, hop, body): (u8, Vec<u8>, u8, &[u8]) = match f[0] >> 4 {
        4 if f.len() >= 20 => {
            let ihl = ((f[0] & 15) as usize) * 4;
            if f.len() < ihl {
                return Frame::Other;
            }
            (f[9], f[16..20].to_vec(), f[8], &f[ihl..])
        }
        6 if f.len() >= 40 => (f[6], f[24..40].to_vec(), f[7], &f[40..]),
        _ => return Frame::Other,
    };
    match proto {
        17 if body.len() >= 8 => Frame::Udp {
            dst,
            sport: u16::from_be_bytes([body[0], body[1]]),
            dport: u16::from_be_bytes([body[2], body[3]]),
            hop,
            payload: body[8..].to_vec(),
        },
        1 | 58 => Frame::Icmp,
        _ => Frame::Other,
    }
}

fn ipaddr(b: &[u8]) -> IpAddress {
    if b.len() == 4 {
        IpAddress::Ipv4(Ipv4Address::new(b[0], b[1], b[2], b[3]))
    } else {
        let mut a = [0u8; 16];
        a.copy_from_slice(b);
        IpAddress::Ipv6(Ipv6Address::from(a))
    }
}
fn addr_bytes(a: &IpAddress) -> Vec<u8> {
    match a {
        IpAddress::Ipv4(x) => x.octets().to_vec(),
        IpAddress::Ipv6(x) => x.octets().to_vec(),
    }
}

// ---------------------------------------------------------------- the stack under test
struct Stack {
    iface: Interface,
    dev: QDev,
    sockets: SocketSet<'static>,
    h: SocketHandle,
}

fn mk_stack(seed: u64, servers: &[IpAddress], slots: usize, owned: bool, v4: bool) -> Stack {
    let mut dev = QDev::new(Medium::Ip, 1500);
    let mut cfg = Config::new(HardwareAddress::Ip);
    cfg.random_seed = seed;
    let mut iface = Interface::new(cfg, &mut dev, Instant::ZERO);
    iface.update_ip_addrs(|a| {
        if v4 {
            a.push(IpCidr::new(ipaddr(&MY4), 24)).unwrap();
        }
        a.push(IpCidr::new(ipaddr(&MY6), 64)).unwrap();
    });
    let q: Vec<Option<dns::DnsQuery>> = (0..slots).map(|_| None).collect();
    let sock = if owned {
        dns::Socket::new(servers, q)
    } else {
        let leaked: &'static mut [Option<dns::DnsQuery>] = Box::leak(q.into_boxed_slice());
        dns::Socket::new(servers, leaked)
    };
    let mut sockets = SocketSet::new(vec![]);
    let h = sockets.add(sock);
    Stack { iface, dev, sockets, h }
}

#[derive(Clone, Debug, PartialEq)]
enum GetR {
    Pending,
    Failed,
    Ok(Vec<Vec<u8>>),
    Panic,
    NoHandle,
}

#[derive(Clone, Debug)]
struct Tx {
    k: Option<usize>,
    dst: Vec<u8>,
    dport: u16,
    hop: u8,
    dns: Vec<u8>, // id bytes XOR txid of query k (or raw when k unknown)
}

#[derive(Clone, Debug)]
enum Obs {
    Cfg(String),
    Start(String),
    Get(usize, GetR),
    Cancel(usize, String),
    /// `blocked`: the device handed out no transmit token during this poll (bpoll / bppoll)
    Poll { t: i64, txs: Vec<Tx>, other: usize, blocked: bool },
    Rsp { acc: bool, k: usize, pk: usize, pd: i64, src: Vec<u8>, sport: u16, data: Vec<u8> },
    PollAt(Option<i64>),
    Servers(Vec<Vec<u8>>),
    Hop(Option<u8>, String),
    Bad(String),
}

fn fmt_obs(o: &Obs) -> String {
    match o {
        Obs::Cfg(s) => s.clone(),
        Obs::Start(s) => format!("start {}", s),
        Obs::Get(_, g) => match g {
            GetR::Pending => "get pending".into(),
            GetR::Failed => "get failed".into(),
            GetR::Panic => "get PANIC".into(),
            GetR::NoHandle => "get nohandle".into(),
            GetR::Ok(a) => format!("get ok {}", a.iter().map(|x| hex(x)).collect::<Vec<_>>().join(",")),
        },
        Obs::Cancel(_, s) => format!("cancel {}", s),
        Obs::Poll { txs, other, .. } => {
            let mut s = String::new();
            for t in txs {
                s.push_str(&format!(
                    "tx k={} dst={} dport={} hop={} dns={}\n",
                    t.k.map(|k| k.to_string()).unwrap_or("?".into()),
                    hex(&t.dst),
                    t.dport,
                    t.hop,
                    hex(&t.dns)
                ));
            }
            s.push_str(&format!("poll n={}{}", txs.len(), if *other > 0 { format!(" other={}", other) } else { String::new() }));
            s
        }
        Obs::Rsp { acc, .. } => format!("rsp acc={}", *acc as u8),
        Obs::PollAt(p) => match p {
            Some(t) => format!("pollat {}", t),
            None => "pollat none".into(),
        },
        Obs::Servers(_) => "servers".into(),
        Obs::Hop(_, s) => format!("hop {}", s),
        Obs::Bad(s) => format!("bad {}", s),
    }
}

fn parse_servers(s: &str) -> Vec<Vec<u8>> {
    if s == "-" || s.is_empty() {
        return vec![];
    }
    s.split(',').map(unhex).collect()
}

fn kv<'a>(t: &'a [&'a str], k: &str) -> Option<&'a str> {
    t.iter().find_map(|x| x.strip_prefix(k).and_then(|r| r.strip_prefix('=')))
}

fn qtype(n: u16) -> DnsQueryType {
    DnsQueryType::from(n)
}

/// destination port rule shared with the model driver
fn port_plus(p: u16, pd: i64) -> u16 {
    let v = p as i64 + pd;
    if (1..=65535).contains(&v) {
        v as u16
    } else {
        (p as i64 - pd).clamp(1, 65535) as u16
    }
}

fn exec_case(c: &Case) -> Vec<Obs> {
    let mut obs = vec![];
    let servers: Vec<IpAddress> = parse_servers(c.get("servers").unwrap_or("-")).iter().map(|b| ipaddr(b)).collect();
    let slots = c.get_i("slots", 1) as usize;
    let owned = c.get_i("owned", 0) != 0;
    let v4 = c.get_i("v4", 1) != 0;
    let seed = c.get_i("seed", 7) as u64;
    let mut st = mk_stack(seed, &servers, slots, owned, v4);
    // shadow stack: same seed, always able to transmit; used only to learn (txid, port)
    let mut sh = mk_stack(seed, &[ipaddr(&SRV4A)], 1, true, true);
    let mut table: Vec<Option<(u16, u16)>> = vec![]; // (txid, port) per query ordinal
    let mut handles: Vec<Option<QueryHandle>> = vec![];
    let mut now: i64 = 0;
    obs.push(Obs::Cfg(format!(
        "cfg maxname={} maxres={} maxsrv={}",
        smoltcp::config::DNS_MAX_NAME_SIZE,
        smoltcp::config::DNS_MAX_RESULT_COUNT,
        smoltcp::config::DNS_MAX_SERVER_COUNT
    )));
    for op in &c.ops {
        let t: Vec<&str> = op.split_whitespace().collect();
        match t[0] {
            "query" | "queryraw" => {
                let bytes = unhex(t[1]);
                let ty: u16 = t[2].parse().unwrap();
                let raw = t[0] == "queryraw";
                let mdns = raw && t[3] == "1";
                let r = catch(AssertUnwindSafe(|| {
                    let sock = st.sockets.get_mut::<dns::Socket>(st.h);
                    let cx = st.iface.context();
                    if raw {
                        sock.start_query_raw(cx, &bytes, qtype(ty), if mdns { MulticastDns::Enabled } else { MulticastDns::Disabled })
                    } else {
                        match std::str::from_utf8(&bytes) {
                            Ok(s) => sock.start_query(cx, s, qtype(ty)),
                            Err(_) => Err(StartQueryError::InvalidName), // generator never does this
                        }
                    }
                }));
                match r {
                    Some(Ok(hd)) => {
                        // learn (txid, port) from the shadow stack
                        let learnt = catch(AssertUnwindSafe(|| {
                            let sock = sh.sockets.get_mut::<dns::Socket>(sh.h);
                            let cx = sh.iface.context();
                            let r2 = if raw {
                                sock.start_query_raw(cx, &bytes, qtype(ty), if mdns { MulticastDns::Enabled } else { MulticastDns::Disabled })
                            } else {
                                sock.start_query(cx, std::str::from_utf8(&bytes).unwrap(), qtype(ty))
                            };
                            let mut res = None;
                            if let Ok(h2) = r2 {
                                sh.iface.poll(Instant::ZERO, &mut sh.dev, &mut sh.sockets);
                                for f in sh.dev.drain_tx() {
                                    if let Frame::Udp { sport, payload, .. } = parse_frame(&f) {
                                        if payload.len() >= 2 {
                                            res = Some((u16::from_be_bytes([payload[0], payload[1]]), sport));
                                        }
                                    }
                                }
                                sh.sockets.get_mut::<dns::Socket>(sh.h).cancel_query(h2);
                            }
                            res
                        }))
                        .flatten();
                        table.push(learnt);
                        handles.push(Some(hd));
                        obs.push(Obs::Start("ok".into()));
                    }
                    Some(Err(e)) => {
                        table.push(None);
                        handles.push(None);
                        obs.push(Obs::Start(
                            match e {
                                StartQueryError::NoFreeSlot => "E1",
                                StartQueryError::InvalidName => "E2",
                                StartQueryError::NameTooLong => "E3",
                            }
                            .into(),
                        ));
                    }
                    None => {
                        table.push(None);
                        handles.push(None);
                        obs.push(Obs::Start("PANIC".into()));
                    }
                }
            }
            "get" => {
                let k: usize = t[1].parse().unwrap();
                let g = match handles.get(k).copied().flatten() {
                    None => GetR::NoHandle,
                    Some(hd) => {
                        let r = catch(AssertUnwindSafe(|| st.sockets.get_mut::<dns::Socket>(st.h).get_query_result(hd)));
                        match r {
                            None => GetR::Panic,
                            Some(Err(GetQueryResultError::Pending)) => GetR::Pending,
                            Some(Err(GetQueryResultError::Failed)) => GetR::Failed,
                            Some(Ok(v)) => GetR::Ok(v.iter().map(addr_bytes).collect()),
                        }
                    }
                };
                obs.push(Obs::Get(k, g));
            }
            "cancel" => {
                let k: usize = t[1].parse().unwrap();
                let s = match handles.get(k).copied().flatten() {
                    None => "nohandle",
                    Some(hd) => match catch(AssertUnwindSafe(|| st.sockets.get_mut::<dns::Socket>(st.h).cancel_query(hd))) {
                        None => "PANIC",
                        Some(()) => "ok",
                    },
                };
                obs.push(Obs::Cancel(k, s.into()));
            }
            "poll" | "ppoll" | "bpoll" | "bppoll" => {
                let v: i64 = t[1].parse().unwrap();
                // bpoll / bppoll: the same poll while the device hands out no transmit token
                let blocked = t[0].starts_with('b');
                st.dev.tx_budget = if blocked { Some(0) } else { None };
                let target = if t[0] == "poll" || t[0] == "bpoll" {
                    v
                } else {
                    match st.iface.poll_at(Instant::from_micros(now), &st.sockets) {
                        Some(p) => p.total_micros() + v,
                        None => now + 1_000_000,
                    }
                };
                now = now.max(target);
                let r = catch(AssertUnwindSafe(|| {
                    st.iface.poll(Instant::from_micros(now), &mut st.dev, &mut st.sockets);
                }));
                st.dev.tx_budget = None;
                if r.is_none() {
                    obs.push(Obs::Bad("PANIC".into()));
                    continue;
                }
                let mut txs = vec![];
                let mut other = 0;
                for f in st.dev.drain_tx() {
                    match parse_frame(&f) {
                        Frame::Udp { dst, sport, dport, hop, payload } => {
                            let id = if payload.len() >= 2 { u16::from_be_bytes([payload[0], payload[1]]) } else { 0 };
                            let k = table.iter().position(|e| *e == Some((id, sport)) && payload.len() >= 2);
                            let mut d = payload.clone();
                            if k.is_some() {
                                d[0] = 0;
                                d[1] = 0;
                            }
                            txs.push(Tx { k, dst, dport, hop, dns: d });
                        }
                        _ => other += 1,
                    }
                }
                obs.push(Obs::Poll { t: now, txs, other, blocked });
            }
            "servers" => {
                let l: Vec<IpAddress> = parse_servers(t[1]).iter().map(|b| ipaddr(b)).collect();
                let r = catch(AssertUnwindSafe(|| st.sockets.get_mut::<dns::Socket>(st.h).update_servers(&l)));
                obs.push(if r.is_some() { Obs::Servers(parse_servers(t[1])) } else { Obs::Bad("PANIC".into()) });
            }
            "hop" => {
                let v: Option<u8> = if t[1] == "none" { None } else { Some(t[1].parse().unwrap()) };
                let r = catch(AssertUnwindSafe(|| st.sockets.get_mut::<dns::Socket>(st.h).set_hop_limit(v)));
                let got = st.sockets.get_mut::<dns::Socket>(st.h).hop_limit();
                let g = got.map(|x| x.to_string()).unwrap_or("none".into());
                obs.push(Obs::Hop(v, format!("{} get={}", if r.is_some() { "ok" } else { "PANIC" }, g)));
            }
            "rsp" => {
                let k: usize = kv(&t, "k").unwrap().parse().unwrap();
                let pk: usize = kv(&t, "pk").unwrap().parse().unwrap();
                let pd: i64 = kv(&t, "pd").unwrap().parse().unwrap();
                let src = unhex(kv(&t, "src").unwrap());
                let sport: u16 = kv(&t, "sport").unwrap().parse().unwrap();
                let data0 = unhex(kv(&t, "data").unwrap());
                let (txid, _) = table.get(k).copied().flatten().unwrap_or((0, 4000));
                let (_, port) = table.get(pk).copied().flatten().unwrap_or((0, 4000));
                let mut data = data0.clone();
                if data.len() >= 2 {
                    data[0] ^= (txid >> 8) as u8;
                    data[1] ^= txid as u8;
                }
                let dport = port_plus(port, pd);
                let dst: &[u8] = if src.len() == 4 { &MY4 } else { &MY6 };
                st.dev.rx.push_back(udp_frame(&src, dst, sport, dport, &data));
                let r = catch(AssertUnwindSafe(|| {
                    st.iface.poll_ingress_single(Instant::from_micros(now), &mut st.dev, &mut st.sockets);
                }));
                if r.is_none() {
                    st.dev.rx.clear();
                    obs.push(Obs::Bad("PANIC".into()));
                    continue;
                }
                let mut icmp = false;
                for f in st.dev.drain_tx() {
                    if let Frame::Icmp = parse_frame(&f) {
                        icmp = true;
                    }
                }
                obs.push(Obs::Rsp { acc: !icmp, k, pk, pd, src, sport, data: data0 });
            }
            x => panic!("bad op {}", x),
        }
        let pa = st.iface.poll_at(Instant::from_micros(now), &st.sockets).map(|p| p.total_micros());
        obs.push(Obs::PollAt(pa));
    }
    obs
}

// ---------------------------------------------------------------- DNS message builder
fn enc_name(labels: &[Vec<u8>]) -> Vec<u8> {
    let mut v = vec![];
    for l in labels {
        v.push(l.len() as u8);
        v.extend_from_slice(l);
    }
    v.push(0);
    v
}
fn labels_of(name: &str) -> Vec<Vec<u8>> {
    name.trim_end_matches('.').split('.').map(|s| s.as_bytes().to_vec()).collect()
}

#[derive(Clone, Copy, PartialEq, Debug)]
enum Viol {
    None,
    SrcAddr,
    SrcPort,
    DstPort,
    Id,
    QName,
    QType,
    NoResponseBit,
    Opcode,
    QdCount,
}
const VIOLS: [Viol; 9] = [Viol::SrcAddr, Viol::SrcPort, Viol::DstPort, Viol::Id, Viol::QName, Viol::QType, Viol::NoResponseBit, Viol::Opcode, Viol::QdCount];
fn viol_slug(v: Viol) -> &'static str {
    match v {
        Viol::None => "none",
        Viol::SrcAddr => "wrong-server",
        Viol::SrcPort => "wrong-source-port",
        Viol::DstPort => "wrong-destination-port",
        Viol::Id => "wrong-id",
        Viol::QName => "wrong-name",
        Viol::QType => "wrong-type",
        Viol::NoResponseBit => "no-response-bit",
        Viol::Opcode => "wrong-opcode",
        Viol::QdCount => "wrong-question-count",
    }
}

struct Built {
    data: Vec<u8>, // id bytes = XOR delta
    pd: i64,
    src: Vec<u8>,
    sport: u16,
    /// addresses of the A/AAAA records on the CNAME chain from the queried name, in order
    on_chain: Vec<Vec<u8>>,
    /// every address in the datagram
    all_addrs: Vec<Vec<u8>>,
}

/// owner-name encodings
fn put_name(rng: &mut Rng, out: &mut Vec<u8>, known: &mut Vec<(Vec<Vec<u8>>, usize)>, labels: &[Vec<u8>], allow_ptr: bool) {
    // try compression against a known suffix
    if allow_ptr && rng.chance(3, 4) {
        for skip in 0..labels.len() {
            if let Some((_, off)) = known.iter().find(|(l, off)| l[..] == labels[skip..] && *off < 0x3fff) {
                let off = *off;
                for (i, l) in labels[..skip].iter().enumerate() {
                    known.push((labels[i..].to_vec(), out.len()));
                    out.push(l.len() as u8);
                    out.extend_from_slice(l);
                }
                out.push(0xc0 | (off >> 8) as u8);
                out.push(off as u8);
                return;
            }
        }
    }
    for (i, l) in labels.iter().enumerate() {
        known.push((labels[i..].to_vec(), out.len()));
        out.push(l.len() as u8);
        out.extend_from_slice(l);
    }
    out.push(0);
}

fn rbytes(rng: &mut Rng, max: u64) -> Vec<u8> {
    let n = rng.below(max) as usize;
    rng.bytes(n)
}
fn rand_label(rng: &mut Rng) -> Vec<u8> {
    let n = *rng.pick(&[1usize, 1, 2, 3, 5, 8, 63]);
    (0..n).map(|_| b'a' + rng.below(26) as u8).collect()
}
fn rand_name(rng: &mut Rng) -> Vec<Vec<u8>> {
    let n = rng.range(1, 3);
    (0..n).map(|_| rand_label(rng)).collect()
}

/// A structurally valid response to (qname, qtype) with exactly the violation `viol`.
fn build_response(rng: &mut Rng, qname: &[Vec<u8>], qtype: u16, server: &[u8], viol: Viol, max_answers: usize) -> Built {
    let mut d = vec![0u8; 12];
    let mut known: Vec<(Vec<Vec<u8>>, usize)> = vec![];
    // header
    let mut flags: u16 = 0x8180;
    if rng.chance(1, 6) {
        flags |= 0x0400;
    }
    if rng.chance(1, 10) {
        flags |= 0x0200; // truncated bit: ignored by the resolver
    }
    if rng.chance(1, 8) {
        flags |= *rng.pick(&[1u16, 2, 4, 5]); // non-NXDomain rcodes are not looked at
    }
    if viol == Viol::NoResponseBit {
        flags &= 0x7fff;
    }
    if viol == Viol::Opcode {
        flags |= (*rng.pick(&[1u16, 2, 4, 8, 15])) << 11;
    }
    d[2..4].copy_from_slice(&flags.to_be_bytes());
    if viol == Viol::Id {
        let x = *rng.pick(&[1u16, 0x100, 0x8000, 0xffff, 0x0101]);
        d[0..2].copy_from_slice(&x.to_be_bytes());
    }
    // question
    let qn: Vec<Vec<u8>> = if viol == Viol::QName {
        let mut n = qname.to_vec();
        match rng.below(5) {
            0 => n[0][0] ^= 0x20, // case differs
            1 => n.push(b"x".to_vec()),
            2 if n.len() > 1 => {
                n.pop();
            }
            3 => {
                let l = n.len() - 1;
                n[l] = b"org".to_vec();
            }
            _ => n.insert(0, b"www".to_vec()),
        }
        if n == qname {
            n.push(b"y".to_vec());
        }
        n
    } else {
        qname.to_vec()
    };
    put_name(rng, &mut d, &mut known, &qn, false);
    let qt = if viol == Viol::QType { if qtype == 1 { 28 } else { 1 } } else { qtype };
    d.extend_from_slice(&qt.to_be_bytes());
    d.extend_from_slice(&[0, 1]);
    let qd: u16 = if viol == Viol::QdCount { *rng.pick(&[0u16, 2, 256]) } else { 1 };
    d[4..6].copy_from_slice(&qd.to_be_bytes());
    // answers: a CNAME chain of length 0..3 from the queried name, addresses for the chain end,
    // plus distractors (addresses for other names, for earlier chain members, other types)
    let chain_len = *rng.pick(&[0usize, 0, 0, 1, 1, 2, 3]);
    let mut chain: Vec<Vec<Vec<u8>>> = vec![qname.to_vec()];
    for _ in 0..chain_len {
        chain.push(rand_name(rng));
    }
    #[derive(Clone)]
    enum R {
        Addr(Vec<Vec<u8>>, bool, Vec<u8>),      // owner, v6?, address
        Cname(Vec<Vec<u8>>, Vec<Vec<u8>>),      // owner, target
        Other(Vec<Vec<u8>>, u16, Vec<u8>),
    }
    let mut recs: Vec<R> = vec![];
    for i in 0..chain_len {
        recs.push(R::Cname(chain[i].clone(), chain[i + 1].clone()));
        if rng.chance(1, 4) {
            // address for a name that is no longer the head once the CNAME has been seen
            recs.push(R::Addr(chain[i].clone(), qtype == 28, rng.bytes(if qtype == 28 { 16 } else { 4 })));
        }
    }
    let n_addr = *rng.pick(&[0usize, 1, 1, 1, 2, 3, 5]);
    for _ in 0..n_addr {
        let v6 = if rng.chance(1, 6) { qtype != 28 } else { qtype == 28 };
        recs.push(R::Addr(chain[chain_len].clone(), v6, rng.bytes(if v6 { 16 } else { 4 })));
    }
    let n_distract = *rng.pick(&[0usize, 0, 1, 2, 4]);
    for _ in 0..n_distract {
        let pos = rng.below(recs.len() as u64 + 1) as usize;
        let r = match rng.below(4) {
            0 => R::Addr(rand_name(rng), false, rng.bytes(4)),
            1 => R::Cname(rand_name(rng), rand_name(rng)),
            2 => R::Other(chain[rng.below(chain.len() as u64) as usize].clone(), *rng.pick(&[16u16, 2, 6, 15, 41]), { let n = rng.below(12) as usize; rng.bytes(n) }),
            _ => R::Addr(chain[rng.below(chain.len() as u64) as usize].clone(), true, rng.bytes(16)),
        };
        recs.insert(pos, r);
    }
    if rng.chance(1, 8) && recs.len() > 1 {
        // shuffle: chain records out of order
        let i = rng.below(recs.len() as u64) as usize;
        let j = rng.below(recs.len() as u64) as usize;
        recs.swap(i, j);
    }
    recs.truncate(max_answers);
    // the specification of the walk, on logical names
    let mut head = qname.to_vec();
    let mut on_chain = vec![];
    let mut all_addrs = vec![];
    for r in &recs {
        match r {
            R::Addr(o, _, a) => {
                all_addrs.push(a.clone());
                if *o == head {
                    on_chain.push(a.clone());
                }
            }
            R::Cname(o, t) => {
                if *o == head {
                    head = t.clone();
                }
            }
            R::Other(..) => {}
        }
    }
    for r in &recs {
        let (owner, ty, rdata): (&Vec<Vec<u8>>, u16, Vec<u8>) = match r {
            R::Addr(o, v6, a) => (o, if *v6 { 28 } else { 1 }, a.clone()),
            R::Cname(o, _) => (o, 5, vec![]),
            R::Other(o, t, dd) => (o, *t, dd.clone()),
        };
        put_name(rng, &mut d, &mut known, owner, true);
        d.extend_from_slice(&ty.to_be_bytes());
        d.extend_from_slice(&[0, 1]);
        d.extend_from_slice(&(rng.next() as u32).to_be_bytes());
        if let R::Cname(_, t) = r {
            let lenpos = d.len();
            d.extend_from_slice(&[0, 0]);
            let s = d.len();
            put_name(rng, &mut d, &mut known, t, true);
            let l = (d.len() - s) as u16;
            d[lenpos..lenpos + 2].copy_from_slice(&l.to_be_bytes());
        } else {
            d.extend_from_slice(&(rdata.len() as u16).to_be_bytes());
            d.extend_from_slice(&rdata);
        }
    }
    let an = recs.len() as u16;
    d[6..8].copy_from_slice(&an.to_be_bytes());
    if rng.chance(1, 10) {
        // trailing authority/additional garbage is never looked at
        d[8..10].copy_from_slice(&1u16.to_be_bytes());
        { let n = rng.below(20) as usize; d.extend_from_slice(&rng.bytes(n)); }
    }
    let mut src = server.to_vec();
    let mut sport = 53u16;
    let mut pd = 0i64;
    match viol {
        Viol::SrcAddr => src = if server.len() == 4 { OTHER4.to_vec() } else { OTHER6.to_vec() },
        Viol::SrcPort => sport = *rng.pick(&[54u16, 52, 1053, 5354, 5352, 530]),
        Viol::DstPort => pd = *rng.pick(&[1i64, -1, 7, 256, -256]),
        _ => {}
    }
    Built { data: d, pd, src, sport, on_chain, all_addrs }
}

/// structural malformations of a valid response
fn mutate(rng: &mut Rng, d: &mut Vec<u8>) {
    if d.is_empty() {
        return;
    }
    match rng.below(12) {
        0 => {
            let n = rng.below(d.len() as u64 + 1) as usize;
            d.truncate(n);
        }
        1 => {
            let i = rng.below(d.len() as u64) as usize;
            d[i] = rng.next() as u8;
        }
        2 => {
            // turn a byte into a pointer to a random place (forward / backward / self)
            let i = rng.below(d.len() as u64) as usize;
            d[i] = 0xc0;
            if i + 1 < d.len() {
                d[i + 1] = match rng.below(4) {
                    0 => i as u8,                                    // self
                    1 => (i as u8).wrapping_add(2 + rng.below(20) as u8), // forward
                    2 => rng.below(i as u64 + 1) as u8,              // backward
                    _ => rng.next() as u8,
                };
            }
        }
        3 => {
            // self pointer as the question name
            if d.len() > 14 {
                d[12] = 0xc0;
                d[13] = 12;
            }
        }
        4 => {
            // two pointers pointing at each other
            if d.len() > 20 {
                let i = 12 + rng.below((d.len() - 16) as u64) as usize;
                d[i] = 0xc0;
                d[i + 1] = (i + 2) as u8;
                d[i + 2] = 0xc0;
                d[i + 3] = i as u8;
            }
        }
        5 => {
            // oversized label / reserved label type
            let i = 12.min(d.len() - 1) + rng.below((d.len() - 12.min(d.len() - 1)) as u64) as usize;
            d[i] = *rng.pick(&[0x40u8, 0x41, 0x7f, 0x80, 0xbf, 0x3f]);
        }
        6 => {
            // answer count lies
            if d.len() >= 8 {
                let v = *rng.pick(&[0u16, 1, 2, 50, 255, 65535]);
                d[6..8].copy_from_slice(&v.to_be_bytes());
            }
        }
        7 => {
            // rcode
            if d.len() >= 4 {
                d[3] = (d[3] & 0xf0) | *rng.pick(&[3u8, 3, 2, 5, 15]);
            }
        }
        8 => {
            let i = rng.below(d.len() as u64 + 1) as usize;
            let n = 1 + rng.below(4) as usize;
            let ins = rng.bytes(n);
            for (j, b) in ins.iter().enumerate() {
                d.insert(i + j, *b);
            }
        }
        9 => {
            // forward pointer as the question name, target appended at the end
            if d.len() > 14 && d.len() < 250 {
                let tgt = d.len();
                d.extend_from_slice(&[1, b'a', 0]);
                d[12] = 0xc0;
                d[13] = tgt as u8;
            }
        }
        10 => {
            let i = rng.below(d.len() as u64) as usize;
            d[i] = 0;
        }
        _ => {
            let n = d.len();
            { let n = rng.below(8) as usize; d.extend_from_slice(&rng.bytes(n)); }
            let _ = n;
        }
    }
}

// ---------------------------------------------------------------- generator (stream dns)
const NAMES: [&str; 16] = [
    "a.b", "example.com", "www.example.com", "x.local", "host.local.", "a", "rust-lang.org.", "A.b",
    "local", "my.printer.local", "a.b.c.d.e", "xn--bcher-kva.example", "local.example", "b", "ab.cd", "a.b.",
];

fn gen_name(rng: &mut Rng) -> Vec<u8> {
    match rng.below(40) {
        0 => vec![],
        1 => b".".to_vec(),
        2 => b"a..b".to_vec(),
        3 => b".a".to_vec(),
        4 => b"a.b..".to_vec(),
        5 => [vec![b'l'; 63], b".x".to_vec()].concat(),
        6 => [vec![b'l'; 64], b".x".to_vec()].concat(),
        7 => {
            // around the 255-byte limit: k labels of 63/62/61 + tail
            let tail = *rng.pick(&[59usize, 60, 61, 62, 63]);
            let mut v = vec![];
            for _ in 0..3 {
                v.extend_from_slice(&vec![b'q'; 63]);
                v.push(b'.');
            }
            v.extend_from_slice(&vec![b'r'; tail]);
            if rng.chance(1, 3) {
                v.push(b'.');
            }
            v
        }
        8 => {
            let mut v = vec![];
            for _ in 0..rng.range(100, 140) {
                v.extend_from_slice(b"a.");
            }
            v
        }
        _ => rng.pick(&NAMES).as_bytes().to_vec(),
    }
}

struct GenQ {
    labels: Vec<Vec<u8>>,
    ty: u16,
    valid: bool,
}

fn gen_servers(rng: &mut Rng) -> Vec<Vec<u8>> {
    match rng.below(12) {
        0 => vec![],
        1 => vec![vec![0, 0, 0, 0]],
        2 => vec![SRV6.to_vec()],
        3 | 4 => vec![SRV4A.to_vec(), SRV4B.to_vec()],
        5 => vec![SRV4A.to_vec(), SRV6.to_vec(), SRV4B.to_vec(), vec![0; 16], OTHER4.to_vec()],
        _ => vec![SRV4A.to_vec()],
    }
}

/// The id bytes of a datagram differ between implementation (random txid) and model driver
/// (its own table), so a compression pointer into offsets 0..2 would read different bytes on
/// the two sides.  Patch every pointer-looking byte pair that targets offset 0 or 1 (stream
/// `dnswire` covers such pointers with absolute bytes).
fn no_ptr_to_id(d: &mut Vec<u8>) {
    for i in 0..d.len().saturating_sub(1) {
        if d[i] >= 0xc0 && (d[i] & 0x3f) == 0 && d[i + 1] < 2 {
            d[i + 1] = 2;
        }
    }
}

fn rsp_line(k: usize, pk: usize, b: &Built) -> String {
    format!("rsp k={} pk={} pd={} src={} sport={} data={}", k, pk, b.pd, hex(&b.src), b.sport, hex(&b.data))
}

fn gen_case(rng: &mut Rng, id: String, tier: &str) -> Case {
    let servers = gen_servers(rng);
    let slots = *rng.pick(&[0usize, 1, 1, 2, 3]);
    let owned = rng.chance(1, 3);
    let v4 = !rng.chance(1, 10);
    let mut ops = vec![];
    let mut qs: Vec<GenQ> = vec![];
    let len = if tier == "thorough" { rng.range(3, 36) } else { rng.range(3, 22) };
    let mut t: i64 = *rng.pick(&[0i64, 0, 1, 5_000_000, 123_456_789]);
    let maxres = smoltcp::config::DNS_MAX_RESULT_COUNT;
    for step in 0..len {
        let r = if step == 0 { 0 } else { rng.below(100) };
        if r < 18 || qs.is_empty() {
            if rng.chance(1, 12) {
                // raw name: valid wire name, or junk with pointers
                let raw = match rng.below(4) {
                    0 => rbytes(rng, 20),
                    1 => vec![0xc0, 0x0c],
                    2 => [enc_name(&labels_of("a.b"))[..4].to_vec(), vec![0xc0, 0x0c]].concat(),
                    _ => enc_name(&labels_of(*rng.pick(&NAMES[..]))),
                };
                let ty = *rng.pick(&[1u16, 28]);
                let mut raw = raw;
                no_ptr_to_id(&mut raw);
                ops.push(format!("queryraw {} {} {}", hex(&raw), ty, rng.below(2)));
                qs.push(GenQ { labels: vec![b"a".to_vec(), b"b".to_vec()], ty, valid: false });
            } else {
                let name = gen_name(rng);
                let ty = *rng.pick(&[1u16, 1, 1, 28, 28, 5, 99]);
                ops.push(format!("query {} {}", hex(&name), ty));
                let s = String::from_utf8(name.clone()).unwrap();
                let labels = labels_of(&s);
                let valid = !name.is_empty() && labels.iter().all(|l| !l.is_empty() && l.len() <= 63);
                qs.push(GenQ { labels, ty, valid });
            }
        } else if r < 45 {
            // time
            match rng.below(12) {
                0..=3 => ops.push(format!("ppoll {}", *rng.pick(&[0i64, 0, 0, 0, -1, 1, -1000, 1000, 500_000]))),
                10 => ops.push(format!("bppoll {}", *rng.pick(&[0i64, 0, 0, 1, 1000, 500_000]))),
                11 => {
                    t += *rng.pick(&[0i64, 0, 1, 1000, 999_999, 1_000_000, 3_000_000, 9_999_999, 10_000_000]);
                    ops.push(format!("bpoll {}", t));
                }
                _ => {
                    t += *rng.pick(&[0i64, 1, 1000, 500_000, 999_999, 1_000_000, 1_000_001, 2_000_000, 3_000_000, 4_000_000, 7_000_000, 8_000_000, 9_999_999, 10_000_000, 10_000_001, 15_000_000, 30_000_000]);
                    ops.push(format!("poll {}", t));
                }
            }
        } else if r < 85 {
            let k = rng.below(qs.len() as u64) as usize;
            let q = &qs[k];
            let server: Vec<u8> = if servers.is_empty() || rng.chance(1, 12) { SRV4A.to_vec() } else { servers[rng.below(servers.len() as u64) as usize].clone() };
            let server = if server.len() == 4 && !v4 { SRV6.to_vec() } else { server };
            // an unspecified source never reaches UDP processing (dropped by the IP layer)
            let server = if server.iter().all(|x| *x == 0) { SRV4B.to_vec() } else { server };
            let server = if server.len() == 4 && !v4 { SRV6.to_vec() } else { server };
            let viol = match rng.below(10) {
                0..=4 => Viol::None,
                _ => *rng.pick(&VIOLS),
            };
            let labels = if q.valid { q.labels.clone() } else { vec![b"a".to_vec(), b"b".to_vec()] };
            let maxa = if rng.chance(1, 2) { 64 } else { maxres + 1 };
            let mut b = build_response(rng, &labels, q.ty, &server, viol, maxa);
            if rng.chance(1, 10) {
                b.sport = 5353; // the mDNS port is accepted from any address
                if rng.chance(1, 2) {
                    b.src = if b.src.len() == 4 { OTHER4.to_vec() } else { OTHER6.to_vec() };
                }
            }
            let nm = match rng.below(10) {
                0..=5 => 0,
                6..=8 => 1,
                _ => 3,
            };
            for _ in 0..nm {
                mutate(rng, &mut b.data);
            }
            let pk = if rng.chance(1, 15) { rng.below(qs.len() as u64) as usize } else { k };
            no_ptr_to_id(&mut b.data);
            ops.push(rsp_line(k, pk, &b));
        } else if r < 88 {
            let l = gen_servers(rng);
            ops.push(format!("servers {}", if l.is_empty() { "-".to_string() } else { l.iter().map(|x| hex(x)).collect::<Vec<_>>().join(",") }));
        } else if r < 90 {
            ops.push(format!("hop {}", *rng.pick(&["none", "0", "1", "64", "255", "7", "0", "128"])));
        } else if r < 96 {
            let extra = if rng.chance(1, 20) { 1 } else { 0 };
            ops.push(format!("get {}", rng.below(qs.len() as u64 + extra)));
        } else {
            ops.push(format!("cancel {}", rng.below(qs.len() as u64)));
        }
    }
    // observe every query at the end
    for k in 0..qs.len() {
        ops.push(format!("get {}", k));
    }
    Case {
        id,
        cfg: vec![
            ("servers".into(), if servers.is_empty() { "-".into() } else { servers.iter().map(|s| hex(s)).collect::<Vec<_>>().join(",") }),
            ("slots".into(), slots.to_string()),
            ("owned".into(), (owned as u8).to_string()),
            ("v4".into(), (v4 as u8).to_string()),
            ("seed".into(), (rng.below(1 << 40)).to_string()),
        ],
        ops,
    }
}

// ---------------------------------------------------------------- oracle scenarios
fn base_cfg(rng: &mut Rng, servers: &[Vec<u8>], ora: String) -> Vec<(String, String)> {
    vec![
        ("servers".into(), servers.iter().map(|s| hex(s)).collect::<Vec<_>>().join(",")),
        ("slots".into(), "2".into()),
        ("owned".into(), "0".into()),
        ("v4".into(), "1".into()),
        ("seed".into(), (rng.below(1 << 40)).to_string()),
        ("ora".into(), ora),
    ]
}

fn gen_oracle_case(rng: &mut Rng, id: String) -> Case {
    let name = *rng.pick(&["a.b", "example.com", "www.example.com", "x.local", "rust-lang.org"]);
    let ty = *rng.pick(&[1u16, 1, 28]);
    let labels = labels_of(name);
    let server = if rng.chance(1, 5) { SRV6.to_vec() } else { SRV4A.to_vec() };
    let servers = vec![server.clone()];
    let mut ops = vec![format!("query {} {}", hex(name.as_bytes()), ty)];
    let t0 = *rng.pick(&[0i64, 1, 1_000_000, 77_000_000]);
    match rng.below(10) {
        6..=7 if rng.chance(1, 3) => {
            // concurrent queries: the lower slots are freed (result collected / cancelled) while the
            // query in the highest slot gets no answer: it must still be retransmitted and fail in time
            let nq = *rng.pick(&[2usize, 2, 3]);
            let names = ["c.d", "example.org", "host.example.com"];
            for k in 1..nq {
                ops.push(format!("query {} {}", hex(names[k - 1].as_bytes()), ty));
            }
            ops.push(format!("poll {}", t0));
            let mut order: Vec<usize> = (0..nq - 1).collect();
            if rng.chance(1, 2) {
                order.reverse();
            }
            for k in order {
                if rng.chance(1, 2) {
                    ops.push(format!("cancel {}", k));
                } else {
                    let lab = if k == 0 { labels.clone() } else { labels_of(names[k - 1]) };
                    let b = build_response(rng, &lab, ty, &server, Viol::None, 4);
                    ops.push(rsp_line(k, k, &b));
                    ops.push(format!("get {}", k));
                }
                if rng.chance(1, 3) {
                    ops.push("ppoll 0".into());
                }
            }
            for _ in 0..60 {
                ops.push("ppoll 0".into());
            }
            ops.push(format!("get {}", nq - 1));
            let mut cfg = base_cfg(rng, &servers, "timing-multi".into());
            for e in cfg.iter_mut() {
                if e.0 == "slots" {
                    e.1 = nq.to_string();
                }
            }
            cfg.push(("track".into(), (nq - 1).to_string()));
            Case { id, cfg, ops }
        }
        0..=3 if rng.chance(1, 6) => {
            // two steps: a matching response with a CNAME that is then cut off (settles nothing),
            // followed by a response that repeats the CNAME target as its question
            ops.push(format!("poll {}", t0));
            let mut target = rand_name(rng);
            if target == labels {
                target.push(b"zz".to_vec()); // the rewritten name must differ from the queried one
            }
            let mut d1 = vec![0, 0, 0x81, 0x80, 0, 1, 0, 2, 0, 0, 0, 0];
            d1.extend_from_slice(&enc_name(&labels));
            d1.extend_from_slice(&ty.to_be_bytes());
            d1.extend_from_slice(&[0, 1, 0xc0, 0x0c, 0, 5, 0, 1, 0, 0, 0, 60]);
            let mut tn = enc_name(&target);
            match rng.below(4) {
                0 => { tn.pop(); }                                  // target without terminator
                1 => { let l = tn.len(); tn[l - 1] = 0xc0; tn.push(0xff); } // target ends in an out-of-range pointer
                _ => {}
            }
            d1.extend_from_slice(&(tn.len() as u16).to_be_bytes());
            d1.extend_from_slice(&tn);
            d1.extend_from_slice(&[0xc0, 0x0c, 0, 1]); // second record cut off
            let b1 = Built { data: d1, pd: 0, src: server.clone(), sport: 53, on_chain: vec![], all_addrs: vec![] };
            ops.push(rsp_line(0, 0, &b1));
            if rng.chance(1, 2) {
                ops.push("ppoll 0".into());
            }
            let mut d2 = vec![0, 0, 0x81, 0x80, 0, 1, 0, 1, 0, 0, 0, 0];
            d2.extend_from_slice(&enc_name(&target));
            d2.extend_from_slice(&ty.to_be_bytes());
            d2.extend_from_slice(&[0, 1, 0xc0, 0x0c]);
            d2.extend_from_slice(&ty.to_be_bytes());
            d2.extend_from_slice(&[0, 1, 0, 0, 0, 60]);
            let a = rng.bytes(if ty == 28 { 16 } else { 4 });
            d2.extend_from_slice(&(a.len() as u16).to_be_bytes());
            d2.extend_from_slice(&a);
            let b2 = Built { data: d2, pd: 0, src: server.clone(), sport: 53, on_chain: vec![], all_addrs: vec![] };
            ops.push(rsp_line(0, 0, &b2));
            ops.push("ppoll 0".into());
            ops.push("get 0".into());
            Case { id, cfg: base_cfg(rng, &servers, "clause:rewritten-question".into()), ops }
        }
        0..=3 => {
            // exactly one clause violated; everything else is a good answer
            let viol = *rng.pick(&VIOLS);
            if rng.chance(3, 4) {
                ops.push(format!("poll {}", t0));
            }
            let nb = rng.range(1, 3);
            for _ in 0..nb {
                let b = build_response(rng, &labels, ty, &server, viol, 64);
                ops.push(rsp_line(0, 0, &b));
            }
            ops.push("get 0".into());
            Case { id, cfg: base_cfg(rng, &servers, format!("clause:{}", viol_slug(viol))), ops }
        }
        4..=5 => {
            // a good answer: the result must come from the on-chain records
            ops.push(format!("poll {}", t0));
            let b = build_response(rng, &labels, ty, &server, Viol::None, 64);
            ops.push(rsp_line(0, 0, &b));
            ops.push("get 0".into());
            let exp = if b.on_chain.is_empty() { "-".to_string() } else { b.on_chain.iter().map(|a| hex(a)).collect::<Vec<_>>().join(",") };
            Case { id, cfg: base_cfg(rng, &servers, format!("valid:{}", exp)), ops }
        }
        6..=7 => {
            if rng.chance(1, 5) {
                // the device never hands out a transmit token (or only after a while): every dispatch attempt fails
                // below the socket; the query must still end - the 10 s per server run from the first ATTEMPT
                let free_after = if rng.chance(1, 2) { 1000 } else { rng.range(1, 25) };
                for i in 0..50i64 {
                    let t = t0 + i * 1_000_000 + *rng.pick(&[0i64, 0, 1, 999]);
                    ops.push(format!("{} {}", if i < free_after { "bpoll" } else { "poll" }, t));
                }
                ops.push("get 0".into());
                return Case { id, cfg: base_cfg(rng, &servers, "timing-blocked".into()), ops };
            }
            // no (matching) answers, polls exactly at poll_at: failure within the bound
            ops.push(format!("poll {}", t0));
            let noise = rng.chance(1, 2);
            // half of the timing scenarios change the server list / hop limit while the query is pending
            let upd = rng.chance(1, 2);
            for _ in 0..60 {
                if upd && rng.chance(1, 5) {
                    let l: Vec<Vec<u8>> = match rng.below(8) {
                        0 => vec![],
                        1 => vec![SRV4B.to_vec()],
                        2 => vec![SRV6.to_vec()],
                        3 => vec![SRV4A.to_vec(), SRV4B.to_vec(), SRV6.to_vec()],
                        4 => vec![vec![0, 0, 0, 0]],
                        _ => vec![SRV4A.to_vec()],
                    };
                    ops.push(format!("servers {}", if l.is_empty() { "-".to_string() } else { l.iter().map(|x| hex(x)).collect::<Vec<_>>().join(",") }));
                }
                if upd && rng.chance(1, 10) {
                    ops.push(format!("hop {}", *rng.pick(&["none", "0", "1", "255", "33"])));
                }
                if noise && rng.chance(1, 4) {
                    let viol = *rng.pick(&[Viol::Id, Viol::DstPort, Viol::SrcAddr, Viol::SrcPort]);
                    let b = build_response(rng, &labels, ty, &server, viol, 4);
                    ops.push(rsp_line(0, 0, &b));
                }
                ops.push("ppoll 0".into());
            }
            ops.push("get 0".into());
            Case { id, cfg: base_cfg(rng, &servers, if upd { "timing-upd".into() } else { "timing".into() }), ops }
        }
        _ => {
            // robustness: right id / port, arbitrary damage
            ops.push(format!("poll {}", t0));
            for _ in 0..rng.range(1, 6) {
                let mut b = build_response(rng, &labels, ty, &server, Viol::None, 64);
                for _ in 0..rng.range(1, 4) {
                    mutate(rng, &mut b.data);
                }
                if b.data.len() >= 2 && rng.chance(9, 10) {
                    b.data[0] = 0;
                    b.data[1] = 0;
                }
                no_ptr_to_id(&mut b.data);
                ops.push(rsp_line(0, 0, &b));
            }
            ops.push("ppoll 0".into());
            ops.push("get 0".into());
            Case { id, cfg: base_cfg(rng, &servers, "robust".into()), ops }
        }
    }
}

/// independent, lenient reading of a datagram: every 4/16-byte rdata of an A/AAAA-looking
/// record header found anywhere (used only for the generic "addresses come from the datagram" check)
fn contains_bytes(h: &[u8], n: &[u8]) -> bool {
    !n.is_empty() && h.windows(n.len()).any(|w| w == n)
}

fn oracle_case(c: &Case, fails: &mut Vec<String>, stats: &mut BTreeMap<String, u64>) {
    let obs = exec_case(c);
    let ora = c.get("ora").unwrap_or("generic").to_string();
    *stats.entry(format!("kind_{}", ora.split(':').next().unwrap())).or_default() += 1;
    let mut fail = |class: &str, why: String| fails.push(format!("{} :: case {}: {}", class, c.id, why));
    let servers = parse_servers(c.get("servers").unwrap_or("-"));
    let maxsrv = smoltcp::config::DNS_MAX_SERVER_COUNT;
    let servers: Vec<Vec<u8>> = servers.into_iter().take(maxsrv).collect();
    // --- generic checks on any trace
    let mut rsps: Vec<(usize, usize, i64, Vec<u8>, u16, Vec<u8>, bool)> = vec![];
    let mut cur_servers: Vec<Vec<u8>> = servers.clone();
    let mut cur_hop: u8 = 64;
    let mut cur_hop_set = false;
    let mut last_now: i64 = 0;
    let mut first_tx: BTreeMap<usize, i64> = BTreeMap::new();
    let mut first_q: BTreeMap<usize, Vec<u8>> = BTreeMap::new();
    let mut tx_times: BTreeMap<usize, Vec<(i64, Vec<u8>)>> = BTreeMap::new();
    let mut prev: Option<&Obs> = None;
    let mut dead: std::collections::BTreeSet<usize> = Default::default();
    let mut aliased = false;
    for o in &obs {
        match o {
            Obs::Bad(s) => fail("panic", format!("the stack panicked ({})", s)),
            Obs::Cancel(k, s) if s == "ok" => {
                if !dead.insert(*k) {
                    aliased = true; // cancelled some later query through a stale handle
                }
            }
            Obs::Rsp { k, pk, pd, src, sport, data, acc } => {
                let src_ok = (*sport == 53 && cur_servers.iter().any(|s| s == src)) || *sport == 5353;
                if *acc != src_ok && !src.iter().all(|x| *x == 0) {
                    fail("routing-to-dns-socket-differs", format!("src={} sport={} accepted={} expected={}", hex(src), sport, acc, src_ok));
                }
                rsps.push((*k, *pk, *pd, src.clone(), *sport, data.clone(), src_ok))
            }
            Obs::Servers(l) => cur_servers = l.iter().take(maxsrv).cloned().collect(),
            Obs::Hop(v, s) => {
                if *v == Some(0) {
                    // documented: panics, and nothing is stored
                    let want = format!("PANIC get={}", if cur_hop_set { cur_hop.to_string() } else { "none".into() });
                    if *s != want {
                        fail("hop-limit-zero-accepted", format!("set_hop_limit(Some(0)) -> `{}` (expected `{}`)", s, want));
                    }
                } else if s.starts_with("ok") {
                    cur_hop = v.unwrap_or(64);
                    cur_hop_set = v.is_some();
                } else {
                    fail("panic", format!("set_hop_limit({:?}) panicked", v));
                }
            }
            Obs::Poll { t, txs, .. } => {
                last_now = *t;
                for x in txs {
                    if x.hop == 0 || x.hop != cur_hop {
                        fail("query-hop-limit-wrong", format!("query transmitted with hop limit {} (configured {})", x.hop, cur_hop));
                    }
                    if let Some(k) = x.k {
                        let q0 = first_q.entry(k).or_insert_with(|| x.dns.clone());
                        if *q0 != x.dns {
                            fail("retransmitted-question-differs", format!("query {} first asked {} and later {}", k, hex(q0), hex(&x.dns)));
                        }
                        first_tx.entry(k).or_insert(*t);
                        tx_times.entry(k).or_default().push((*t, x.dst.clone()));
                    } else {
                        fail("query-with-unknown-id-or-port", format!("a transmitted datagram carries an id/source port of no started query"));
                    }
                }
            }
            Obs::PollAt(Some(p)) => {
                if let Some(Obs::Poll { t, txs, blocked, .. }) = prev {
                    // (a poll during which the device refused every frame legitimately leaves a query due at once)
                    if *p <= *t && !*blocked {
                        // after a poll at t every pending query has both deadlines after t
                        // (C19_poll_no_spin): a deadline <= t means some query was not dispatched
                        let _ = txs;
                        fail("pollat-in-the-past", format!("after the poll at {} us poll_at reports {} us: the schedule cannot advance", t, p));
                    }
                }
            }
            Obs::Get(k, GetR::Ok(_)) | Obs::Get(k, GetR::Failed) | Obs::Get(k, GetR::Pending) if dead.contains(k) => {
                // a handle whose slot was already freed (cancel / result taken) aliases whatever
                // query reuses the slot: from here on results cannot be attributed to ordinals
                *stats.entry("stale_handle_results".into()).or_default() += 1;
                aliased = true;
            }
            Obs::Get(_, GetR::Ok(_)) if aliased => {
                *stats.entry("unattributed_results".into()).or_default() += 1;
            }
            Obs::Get(k, GetR::Failed) => {
                dead.insert(*k);
            }
            Obs::Get(k, GetR::Ok(addrs)) => {
                dead.insert(*k);
                *stats.entry("completed".into()).or_default() += 1;
                if addrs.is_empty() {
                    fail("completed-without-addresses", format!("query {} completed with an empty list", k));
                }
                // some delivered datagram must satisfy the source / port / id clauses and contain the addresses
                let ok = rsps.iter().any(|(rk, rpk, pd, _src, _sport, data, src_ok)| {
                    *src_ok && rk == k && rpk == k && *pd == 0 && data.len() >= 12 && data[0] == 0 && data[1] == 0 && data[2] & 0x80 != 0
                        && addrs.iter().all(|a| contains_bytes(&data[12..], a))
                });
                if !ok {
                    let any_src_bad = rsps.iter().any(|(_, _, _, _, _, _, ok)| !*ok);
                    fail(
                        "answer-accepted-from-nonmatching-datagram",
                        format!("query {} completed with {:?} but no delivered datagram has an accepted source, its port, its id and these addresses (some datagram had a bad source: {})", k, addrs.iter().map(|a| hex(a)).collect::<Vec<_>>(), any_src_bad),
                    );
                }
            }
            _ => {}
        }
        prev = Some(o);
    }
    let _ = last_now;
    let tk: usize = if ora == "timing-multi" { c.get_i("track", 1) as usize } else { 0 };
    let final_get = obs.iter().rev().find_map(|o| match o { Obs::Get(k, g) if *k == tk => Some(g.clone()), _ => None });
    // --- scenario-specific expectations
    // two-step scenario: the verdict only applies when the last response's question really differs
    // from the question the query was started with (its first transmission); a "rewritten" name that
    // happens to equal the queried name makes the second response an ordinary matching answer
    let repeats_original = ora == "clause:rewritten-question"
        && match (first_q.get(&0), rsps.last()) {
            (Some(q0), Some((_, _, _, _, _, data, _))) => q0.len() > 12 && data.len() >= q0.len() && data[12..q0.len()] == q0[12..],
            _ => false,
        };
    if repeats_original {
        *stats.entry("twostep_same_question".into()).or_default() += 1;
    } else if let Some(slug) = ora.strip_prefix("clause:") {
        match final_get {
            Some(GetR::Ok(a)) => fail(&format!("answer-accepted-{}", slug), format!("addresses {:?} taken from a response with {}", a.iter().map(|x| hex(x)).collect::<Vec<_>>(), slug)),
            Some(GetR::Failed) => fail(&format!("nonmatching-response-failed-query-{}", slug), format!("a response with {} (rcode != NXDomain) made the query fail", slug)),
            Some(GetR::Pending) => *stats.entry("clause_ignored".into()).or_default() += 1,
            other => fail("oracle-scenario-broken", format!("{:?}", other)),
        }
    } else if let Some(exp) = ora.strip_prefix("valid:") {
        let exp: Vec<Vec<u8>> = if exp == "-" { vec![] } else { exp.split(',').map(unhex).collect() };
        match final_get {
            Some(GetR::Ok(a)) => {
                *stats.entry("valid_ok".into()).or_default() += 1;
                if let Some(x) = a.iter().find(|x| !exp.contains(x)) {
                    fail("answer-address-off-chain", format!("address {} is not from a record whose owner is the head of the CNAME chain (on-chain: {:?})", hex(x), exp.iter().map(|e| hex(e)).collect::<Vec<_>>()));
                }
                let cap = smoltcp::config::DNS_MAX_RESULT_COUNT;
                let want: Vec<Vec<u8>> = exp.iter().take(cap).cloned().collect();
                if a != want {
                    fail("matching-answer-unexpected-result", format!("got {:?} want {:?}", a.iter().map(|x| hex(x)).collect::<Vec<_>>(), want.iter().map(|x| hex(x)).collect::<Vec<_>>()));
                }
            }
            Some(GetR::Failed) => {
                *stats.entry("valid_failed".into()).or_default() += 1;
                if !exp.is_empty() {
                    fail("matching-answer-unexpected-result", format!("query failed although the response carries on-chain addresses {:?}", exp.iter().map(|x| hex(x)).collect::<Vec<_>>()));
                }
            }
            other => fail("matching-answer-unexpected-result", format!("{:?}", other)),
        }
    } else if ora == "timing" || ora == "timing-upd" || ora == "timing-multi" {
        let upd = ora == "timing-upd";
        // property text: retransmit with back-off, next server after 10 s, bounded failure
        let is_mdns = tx_times.get(&tk).map(|v| v.iter().any(|(_, d)| d[0] == 0xff || d[0] == 224)).unwrap_or(false);
        let nsrv = if is_mdns { 2 } else if upd { maxsrv } else { servers.len() } as i64;
        let t_first = first_tx.get(&tk).copied();
        match (&final_get, t_first) {
            (Some(GetR::Failed), Some(t1)) => {
                *stats.entry("timing_failed_in_time".into()).or_default() += 1;
                // when did it fail? the first poll after which poll_at is none
                let mut t_fail = None;
                let mut cur = 0;
                let mut it = obs.iter().peekable();
                while let Some(o) = it.next() {
                    if let Obs::Poll { t, .. } = o {
                        cur = *t;
                        if let Some(Obs::PollAt(None)) = it.peek() {
                            t_fail = Some(cur);
                            break;
                        }
                    }
                }
                let bound = t1 + nsrv * 10_000_000;
                if let Some(tf) = t_fail {
                    if tf > bound {
                        fail("query-failing-later-than-bound", format!("first transmission at {} us, {} server(s): failure reported at {} us, bound {} us", t1, nsrv, tf, bound));
                    }
                }
            }
            (Some(GetR::Pending), _) => fail("query-never-failing", "still pending after 60 polls at poll_at without any matching response".into()),
            (Some(GetR::Failed), None) => {}
            (other, _) => fail("oracle-scenario-broken", format!("{:?}", other)),
        }
        if let (Some(v), false) = (tx_times.get(&tk), upd) {
            // per destination: gaps at least 1 s and non-decreasing; a new destination no later than 10 s after the first transmission to the previous one
            let mut i = 0;
            let mut prev_first: Option<i64> = None;
            while i < v.len() {
                let mut j = i;
                while j + 1 < v.len() && v[j + 1].1 == v[i].1 {
                    j += 1;
                }
                if let Some(pf) = prev_first {
                    if v[i].0 - pf > 10_000_000 {
                        fail("failover-later-than-timeout", format!("next server first tried {} us after the previous one's first transmission (10 s allowed)", v[i].0 - pf));
                    }
                    if v[i].0 - pf < 10_000_000 {
                        fail("failover-earlier-than-timeout", format!("next server tried after only {} us", v[i].0 - pf));
                    }
                }
                prev_first = Some(v[i].0);
                let gaps: Vec<i64> = (i..j).map(|x| v[x + 1].0 - v[x].0).collect();
                for w in 0..gaps.len() {
                    if gaps[w] < 1_000_000 || (w > 0 && gaps[w] < gaps[w - 1]) {
                        fail("retransmit-no-backoff", format!("retransmission gaps {:?} us", gaps));
                        break;
                    }
                }
                i = j + 1;
            }
        }
    } else if ora == "timing-blocked" {
        // 50 polls one second apart, the first ones (or all) with a device that refuses every frame, no response:
        // each server is given up 10 s after the first dispatch ATTEMPT towards it, so with at most 3 servers
        // (incl. the two mDNS groups) the query has failed after 49 s
        match &final_get {
            Some(GetR::Failed) => {}
            Some(GetR::Pending) => fail("query-never-failing", "still pending after 50 polls one second apart (device refusing frames at first) without any response".into()),
            other => fail("oracle-scenario-broken", format!("{:?}", other)),
        }
    } else if ora == "robust" {
        *stats.entry("robust_cases".into()).or_default() += 1;
    }
}

// ---------------------------------------------------------------- stream dnswire
fn names_obs(pkt: &[u8], bytes: &[u8]) -> String {
    let r = catch(AssertUnwindSafe(|| {
        let p = DnsPacket::new_unchecked(pkt);
        let mut out = vec![];
        let mut n = 0;
        for l in p.parse_name(bytes) {
            match l {
                Ok(l) => out.push(hex(l)),
                Err(_) => return (out, "ERR"),
            }
            n += 1;
            if n > 100_000 {
                return (out, "HANG");
            }
        }
        (out, "END")
    }));
    match r {
        None => "nm PANIC".into(),
        Some((ls, e)) => format!("nm {}{}{}", ls.join("|"), if ls.is_empty() { "" } else { " " }, e),
    }
}

fn run_wire_case(c: &Case, out: &mut dyn Write) {
    writeln!(out, "case {}", c.id).unwrap();
    for op in &c.ops {
        let t: Vec<&str> = op.split_whitespace().collect();
        let line = match t[0] {
            "hdr" => {
                let b = unhex(t[1]);
                match catch(AssertUnwindSafe(|| {
                    DnsPacket::new_checked(&b[..]).map(|p| {
                        let op: u8 = p.opcode().into();
                        let rc: u8 = p.rcode().into();
                        format!(
                            "h id={} fl={} op={} rc={} qd={} an={} ns={} ar={}",
                            p.transaction_id(), p.flags().bits(), op, rc, p.question_count(), p.answer_record_count(),
                            p.authority_record_count(), p.additional_record_count()
                        )
                    })
                })) {
                    None => "h PANIC".into(),
                    Some(Err(_)) => "h err".into(),
                    Some(Ok(s)) => s,
                }
            }
            "name" => {
                let b = unhex(t[1]);
                let off: usize = t[2].parse().unwrap();
                names_obs(&b, &b[off.min(b.len())..])
            }
            "name2" => {
                let b = unhex(t[1]);
                let x = unhex(t[2]);
                names_obs(&b, &x)
            }
            "question" => {
                let b = unhex(t[1]);
                match catch(AssertUnwindSafe(|| DnsQuestion::parse(&b).map(|(rest, q)| {
                    let ty: u16 = q.type_.into();
                    format!("q ok rest={} name={} type={}", rest.len(), hex(q.name), ty)
                }))) {
                    None => "q PANIC".into(),
                    Some(Err(_)) => "q err".into(),
                    Some(Ok(s)) => s,
                }
            }
            "record" => {
                let b = unhex(t[1]);
                match catch(AssertUnwindSafe(|| DnsRecord::parse(&b).map(|(rest, r)| {
                    let d = match r.data {
                        DnsRecordData::A(a) => format!("A:{}", hex(&a.octets())),
                        DnsRecordData::Aaaa(a) => format!("AAAA:{}", hex(&a.octets())),
                        DnsRecordData::Cname(n) => format!("CNAME:{}", hex(n)),
                        DnsRecordData::Other(t, d) => {
                            let t: u16 = t.into();
                            format!("OTHER:{}:{}", t, hex(d))
                        }
                    };
                    format!("r ok rest={} name={} ttl={} data={}", rest.len(), hex(r.name), r.ttl, d)
                }))) {
                    None => "r PANIC".into(),
                    Some(Err(_)) => "r err".into(),
                    Some(Ok(s)) => s,
                }
            }
            "emit" => {
                // emit <id> <flags> <opcode> <name hex> <type> <buflen|auto> [<fill>]   into a buffer filled with <fill> (default 0)
                let id: u16 = t[1].parse().unwrap();
                let fl: u16 = t[2].parse().unwrap();
                let opc: u8 = t[3].parse().unwrap();
                let name = unhex(t[4]);
                let ty: u16 = t[5].parse().unwrap();
                let repr = DnsRepr {
                    transaction_id: id,
                    opcode: DnsOpcode::from(opc),
                    flags: DnsFlags::from_bits_truncate(fl),
                    question: DnsQuestion { name: &name, type_: qtype(ty) },
                };
                let blen = if t[6] == "auto" { repr.buffer_len() } else { t[6].parse().unwrap() };
                let fill: u8 = t.get(7).map(|x| x.parse().unwrap()).unwrap_or(0);
                match catch(AssertUnwindSafe(|| {
                    let mut buf = vec![fill; blen];
                    repr.emit(&mut DnsPacket::new_unchecked(&mut buf[..]));
                    buf
                })) {
                    None => format!("e len={} PANIC", repr.buffer_len()),
                    Some(b) => format!("e len={} {}", repr.buffer_len(), hex(&b)),
                }
            }
            x => panic!("bad wire op {}", x),
        };
        writeln!(out, "{}", line).unwrap();
    }
}

fn gen_wire_case(rng: &mut Rng, id: String, tier: &str) -> Case {
    let mut ops = vec![];
    let name = *rng.pick(&["a.b", "example.com", "www.example.com", "x.local"]);
    let labels = labels_of(name);
    let ty = *rng.pick(&[1u16, 28]);
    let nmsg = if tier == "thorough" { 3 } else { 2 };
    for _ in 0..nmsg {
        let mut d = match rng.below(8) {
            0 => { let m = if rng.chance(1, 4) { 600 } else { 64 }; rbytes(rng, m) },
            _ => {
                let mut b = build_response(rng, &labels, ty, &SRV4A, Viol::None, 64);
                b.data[0] = rng.next() as u8;
                b.data[1] = rng.next() as u8;
                b.data
            }
        };
        for _ in 0..*rng.pick(&[0usize, 0, 1, 1, 2, 4]) {
            mutate(rng, &mut d);
        }
        ops.push(format!("hdr {}", hex(&d)));
        // names at the question, at a few random offsets, and at every pointer-looking byte
        let mut offs: Vec<usize> = vec![12.min(d.len())];
        for _ in 0..3 {
            offs.push(rng.below(d.len() as u64 + 1) as usize);
        }
        for (i, b) in d.iter().enumerate() {
            if *b >= 0xc0 && offs.len() < 8 {
                offs.push(i);
            }
        }
        for o in offs {
            ops.push(format!("name {} {}", hex(&d), o));
        }
        // a name slice that is not part of the packet (the resolver's own name buffer)
        let own = match rng.below(3) {
            0 => enc_name(&labels),
            1 => vec![0xc0, rng.below(d.len() as u64 + 1) as u8],
            _ => rbytes(rng, 12),
        };
        ops.push(format!("name2 {} {}", hex(&d), hex(&own)));
        if d.len() >= 12 {
            ops.push(format!("question {}", hex(&d[12..])));
            // records: walk the answers with the implementation-independent knowledge we have: try
            // every offset after the question where a record may start (bounded)
            let mut starts: Vec<usize> = vec![];
            let mut p = 12;
            // skip question name syntactically
            while p < d.len() {
                let x = d[p];
                if x == 0 {
                    p += 1;
                    break;
                } else if x & 0xc0 == 0xc0 {
                    p += 2;
                    break;
                } else if x & 0xc0 == 0 {
                    p += 1 + (x & 0x3f) as usize;
                } else {
                    break;
                }
            }
            p += 4;
            let mut guard = 0;
            while p < d.len() && guard < 6 {
                starts.push(p);
                // skip owner name
                let mut q = p;
                while q < d.len() {
                    let x = d[q];
                    if x == 0 {
                        q += 1;
                        break;
                    } else if x & 0xc0 == 0xc0 {
                        q += 2;
                        break;
                    } else if x & 0xc0 == 0 {
                        q += 1 + (x & 0x3f) as usize;
                    } else {
                        break;
                    }
                }
                if q + 10 > d.len() {
                    break;
                }
                let rl = u16::from_be_bytes([d[q + 8], d[q + 9]]) as usize;
                p = q + 10 + rl;
                guard += 1;
            }
            for s in starts {
                ops.push(format!("record {}", hex(&d[s..])));
            }
            ops.push(format!("record {}", hex(&d[rng.below(d.len() as u64) as usize..])));
        }
    }
    // emit
    let nm = match rng.below(5) {
        0 => rbytes(rng, 10),
        1 => vec![],
        _ => enc_name(&labels_of(*rng.pick(&NAMES[..]))),
    };
    let blen = match rng.below(6) {
        0 => (12 + nm.len() + 4 + rng.below(5) as usize).to_string(),
        1 => rng.below((12 + nm.len() + 4) as u64).to_string(),
        _ => "auto".into(),
    };
    ops.push(format!(
        "emit {} {} {} {} {} {} {}",
        rng.below(65536),
        *rng.pick(&[0x0100u16, 0, 0xffff, 0x8180, 0x0010, 0x7800]),
        *rng.pick(&[0u8, 0, 1, 2, 7, 8, 15, 16, 31, 255]),
        hex(&nm),
        *rng.pick(&[1u16, 28, 5, 255, 65535]),
        blen,
        *rng.pick(&[0u8, 0, 0xff, 0xa5, 0x5a, 0x0f])
    ));
    Case { id, cfg: vec![], ops }
}

// ---------------------------------------------------------------- main
fn main() {
    quiet_panics();
    let (sub, seed, n, tier) = args();
    let cur = Arc::new(Mutex::new(String::new()));
    let stdout = std::io::stdout();
    match sub.as_str() {
        "gen" => {
            let mut out = std::io::BufWriter::new(stdout.lock());
            let mut rng = Rng::new(seed);
            for i in 0..n {
                gen_case(&mut rng, format!("s{}-{}", seed, i), &tier).write(&mut out);
            }
        }
        "run" => {
            watchdog(cur.clone(), "run");
            for c in stdin_cases() {
                watch_begin(&cur, &c);
                let obs = exec_case(&c);
                watch_end();
                let mut out = stdout.lock();
                writeln!(out, "case {}", c.id).unwrap();
                for o in &obs {
                    writeln!(out, "{}", fmt_obs(o)).unwrap();
                }
            }
        }
        "gen-wire" => {
            let mut out = std::io::BufWriter::new(stdout.lock());
            let mut rng = Rng::new(seed ^ 0x77);
            for i in 0..n {
                gen_wire_case(&mut rng, format!("w{}-{}", seed, i), &tier).write(&mut out);
            }
        }
        "run-wire" => {
            watchdog(cur.clone(), "run");
            for c in stdin_cases() {
                watch_begin(&cur, &c);
                let mut buf = vec![];
                run_wire_case(&c, &mut buf);
                watch_end();
                stdout.lock().write_all(&buf).unwrap();
            }
        }
        "oracle" | "oracle-replay" => {
            watchdog(cur.clone(), if sub == "oracle" { "oracle" } else { "run" });
            let cases: Vec<Case> = if sub == "oracle" {
                let mut rng = Rng::new(seed ^ 0xD25);
                (0..n)
                    .map(|i| if i % 4 == 3 { let mut c = gen_case(&mut rng, format!("o{}-{}", seed, i), &tier); c.cfg.push(("ora".into(), "generic".into())); c } else { gen_oracle_case(&mut rng, format!("o{}-{}", seed, i)) })
                    .collect()
            } else {
                stdin_cases()
            };
            let mut fails = vec![];
            let mut stats = BTreeMap::new();
            // buffered locally: the watchdog thread must be able to take the stdout lock
            let mut out: Vec<u8> = vec![];
            let mut ncases = 0;
            for c in &cases {
                let before = fails.len();
                watch_begin(&cur, c);
                oracle_case(c, &mut fails, &mut stats);
                watch_end();
                ncases += 1;
                if fails.len() > before && sub == "oracle" {
                    writeln!(out, "FAILCASE").unwrap();
                    c.write(&mut out);
                }
                if fails.len() > 30 {
                    break;
                }
            }
            for f in &fails {
                writeln!(out, "FAIL {}", f).unwrap();
            }
            if sub == "oracle" {
                let st: Vec<String> = stats.iter().map(|(k, v)| format!("{}:{}", jstr(k), v)).collect();
                writeln!(out, "STATS {{\"cases\":{}{}{}}}", ncases, if st.is_empty() { "" } else { "," }, st.join(",")).unwrap();
            }
            stdout.lock().write_all(&out).unwrap();
        }
        x => panic!("unknown subcommand {}", x),
    }
}
