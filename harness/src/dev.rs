//! A queue-backed `phy::Device` shared by all interface-level harnesses.
//!
//! * frames pushed to `rx` are handed to the interface one per `receive()`;
//! * frames the interface transmits are appended to `tx`;
//! * `tx_budget`: number of frames the device still accepts (None = unlimited) — models
//!   device back-pressure: when 0, `transmit()`/`receive()` hand out no tx token;
//! * every frame offered for transmission is checked against `mtu` (recorded in `oversize`).
use smoltcp::phy::{ChecksumCapabilities, Device, DeviceCapabilities, Medium, RxToken, TxToken};
use smoltcp::time::Instant;
use std::collections::VecDeque;

pub struct QDev {
    pub medium: Medium,
    pub mtu: usize,
    pub rx: VecDeque<Vec<u8>>,
    pub tx: VecDeque<Vec<u8>>,
    pub tx_budget: Option<usize>,
    pub max_burst: Option<usize>,
    pub checksum: ChecksumCapabilities,
    /// lengths of frames the stack tried to send that exceed `mtu`
    pub oversize: Vec<usize>,
    /// total frames consumed from rx / pushed to tx
    pub n_rx: usize,
    pub n_tx: usize,
}

impl QDev {
    pub fn new(medium: Medium, mtu: usize) -> QDev {
        QDev {
            medium,
            mtu,
            rx: VecDeque::new(),
            tx: VecDeque::new(),
            tx_budget: None,
            max_burst: None,
            checksum: ChecksumCapabilities::default(),
            oversize: vec![],
            n_rx: 0,
            n_tx: 0,
        }
    }
    pub fn drain_tx(&mut self) -> Vec<Vec<u8>> {
        self.tx.drain(..).collect()
    }
}

pub struct QRx(Vec<u8>);
pub struct QTx<'a> {
    tx: &'a mut VecDeque<Vec<u8>>,
    budget: &'a mut Option<usize>,
    oversize: &'a mut Vec<usize>,
    n_tx: &'a mut usize,
    mtu: usize,
}

impl RxToken for QRx {
    fn consume<R, F>(self, f: F) -> R
    where
        F: FnOnce(&[u8]) -> R,
    {
        f(&self.0)
    }
}

impl<'a> TxToken for QTx<'a> {
    fn consume<R, F>(self, len: usize, f: F) -> R
    where
        F: FnOnce(&mut [u8]) -> R,
    {
        // garbage-filled buffer: emitted bytes must not depend on previous contents
        let mut buf = vec![0xa5u8; len];
        let r = f(&mut buf);
        if len > self.mtu {
            self.oversize.push(len);
        }
        if let Some(b) = self.budget.as_mut() {
            *b = b.saturating_sub(1);
        }
        *self.n_tx += 1;
        self.tx.push_back(buf);
        r
    }
}

impl Device for QDev {
    type RxToken<'a> = QRx;
    type TxToken<'a> = QTx<'a>;

    fn receive(&mut self, _t: Instant) -> Option<(QRx, QTx<'_>)> {
        if self.tx_budget == Some(0) {
            return None;
        }
        let f = self.rx.pop_front()?;
        self.n_rx += 1;
        Some((
            QRx(f),
            QTx { tx: &mut self.tx, budget: &mut self.tx_budget, oversize: &mut self.oversize, n_tx: &mut self.n_tx, mtu: self.mtu },
        ))
    }

    fn transmit(&mut self, _t: Instant) -> Option<QTx<'_>> {
        if self.tx_budget == Some(0) {
            return None;
        }
        Some(QTx { tx: &mut self.tx, budget: &mut self.tx_budget, oversize: &mut self.oversize, n_tx: &mut self.n_tx, mtu: self.mtu })
    }

    fn capabilities(&self) -> DeviceCapabilities {
        let mut c = DeviceCapabilities::default();
        c.medium = self.medium;
        c.max_transmission_unit = self.mtu;
        c.max_burst_size = self.max_burst;
        c.checksum = self.checksum.clone();
        c
    }
}
