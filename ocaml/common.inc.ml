(* Textually included after `open <Model>`: conversions between OCaml ints/strings and
   the extracted positive / z / nat types (constructors XI XO XH, Z0 Zpos Zneg, O S). *)
let rec pos_of_int (n : int) : positive =
  if n <= 1 then XH
  else if n land 1 = 1 then XI (pos_of_int (n lsr 1))
  else XO (pos_of_int (n lsr 1))

let rec int_of_pos (p : positive) : int =
  match p with XH -> 1 | XO q -> 2 * int_of_pos q | XI q -> 2 * int_of_pos q + 1

let z_of_int (n : int) : z =
  if n = 0 then Z0 else if n > 0 then Zpos (pos_of_int n) else Zneg (pos_of_int (-n))

let int_of_z (x : z) : int =
  match x with Z0 -> 0 | Zpos p -> int_of_pos p | Zneg p -> - (int_of_pos p)

let zs (s : string) : z = z_of_int (int_of_string s)
let sz (x : z) : string = string_of_int (int_of_z x)

let words (s : string) : string list =
  List.filter (fun w -> w <> "") (String.split_on_char ' ' (String.trim s))

(* hex string ("-" = empty) <-> list of z bytes *)
let bytes_of_hex (s : string) : z list =
  if s = "-" then []
  else List.init (String.length s / 2) (fun i -> z_of_int (int_of_string ("0x" ^ String.sub s (2 * i) 2)))

let hex_of_bytes (l : z list) : string =
  if l = [] then "-"
  else String.concat "" (List.map (fun b -> Printf.sprintf "%02x" (int_of_z b land 255)) l)

(* case reader: calls [f id cfg ops] for each case on stdin *)
let cfg_get (cfg : (string * string) list) (k : string) (d : string) : string =
  try List.assoc k cfg with Not_found -> d

let iter_cases (f : string -> (string * string) list -> string list -> unit) : unit =
  let cur = ref None in
  (try
     while true do
       let line = String.trim (input_line stdin) in
       if line = "" || line.[0] = '#' then ()
       else if String.length line > 5 && String.sub line 0 5 = "case " then begin
         match words line with
         | _ :: id :: kvs ->
             let cfg = List.map (fun kv ->
               match String.index_opt kv '=' with
               | Some i -> (String.sub kv 0 i, String.sub kv (i + 1) (String.length kv - i - 1))
               | None -> (kv, "")) kvs in
             cur := Some (id, cfg, [])
         | _ -> failwith "bad case line"
       end else if line = "end" then begin
         (match !cur with
          | Some (id, cfg, ops) -> f id cfg (List.rev ops)
          | None -> failwith "end without case");
         cur := None
       end else
         match !cur with
         | Some (id, cfg, ops) -> cur := Some (id, cfg, line :: ops)
         | None -> failwith "op outside case"
     done
   with End_of_file -> ())
