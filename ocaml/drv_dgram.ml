(* model side of stream `dgram` (format: harness/src/bin/h_dgram.rs, module doc).
   Only text <-> model-value conversion, payload generation and hashing live here. *)

let zi = z_of_int
let iz = int_of_z

let rec nat_of_int n = if n <= 0 then O else S (nat_of_int (n - 1))

(* payload byte i of a generated payload *)
let gen_bytes (len : int) (seed : int) : int list =
  List.init (max len 0) (fun i -> (seed * 13 + i * 7 + i / 3) mod 251)

let hash_ints (l : int list) : int =
  List.fold_left (fun h b -> (h * 131 + b + 1) mod 1000000007) 7 l

let zl (l : int list) : z list = List.map zi l
let il (l : z list) : int list = List.map iz l

let split c s = String.split_on_char c s

let addr_of (s : string) : ipaddr =
  match split '.' s with
  | [v; i] -> { a_ver = zs v; a_id = zs i }
  | _ -> failwith ("bad addr " ^ s)

let oaddr_of (s : string) : ipaddr option = if s = "-" then None else Some (addr_of s)
let addr_s (a : ipaddr) : string = Printf.sprintf "%s.%s" (sz a.a_ver) (sz a.a_id)
let oaddr_s = function None -> "-" | Some a -> addr_s a

(* payload specifications *)
let payload_of (ver_hint : int) (s : string) : int list =
  match split ':' s with
  | ["g"; len; seed] -> gen_bytes (int_of_string len) (int_of_string seed)
  | ["i"; ty; code; ident; seq; len; seed] ->
      let ident = int_of_string ident and seq = int_of_string seq in
      [int_of_string ty; int_of_string code; 0; 0; ident lsr 8; ident land 255; seq lsr 8; seq land 255]
      @ gen_bytes (int_of_string len) (int_of_string seed)
  | ["h"; ver; proto; hop; src; dst; plen; len; seed; keep] ->
      let r = { ir_ver = zs ver; ir_src = { a_ver = zs ver; a_id = zs src };
                ir_dst = { a_ver = zs ver; a_id = zs dst }; ir_proto = zs proto; ir_hop = zs hop;
                ir_plen = zs plen } in
      let hdr = if ver = "4" || ver = "6" then il (ip_hdr_sym r)
                else (int_of_string ver) :: List.init 19 (fun _ -> 0) in
      let all = hdr @ gen_bytes (int_of_string len) (int_of_string seed) in
      let keep = int_of_string keep in
      if keep < 0 then all else List.filteri (fun i _ -> i < keep) all
  | _ -> failwith ("bad payload spec " ^ s)

let rec drop n l = if n <= 0 then l else match l with [] -> [] | _ :: t -> drop (n - 1) t
let rec take n l = if n <= 0 then [] else match l with [] -> [] | x :: t -> x :: take (n - 1) t
let nth_or l i = try List.nth l i with _ -> 0

(* hash of a datagram handed to the application, per socket kind (same rule in the harness) *)
let rx_hash (kind : int) (from_v4 : bool) (b : int list) : string =
  match kind with
  | 1 -> string_of_int (hash_ints b)
  | 2 ->
      let ty = nth_or b 0 in
      if List.length b >= 8 && (ty = 8 || ty = 0 || ty = 128 || ty = 129) then
        string_of_int (hash_ints (take 2 b @ drop 4 b))
      else if List.length b >= 8 then begin
        let v4 = from_v4 in
        let hl = if v4 then 20 else 40 in
        let iproto = nth_or b (if v4 then 8 + 9 else 8 + 6) in
        let off = 8 + hl + (if iproto = 6 then 20 else 8) in
        Printf.sprintf "%d/%d" (hash_ints (take 2 b)) (hash_ints (drop off b))
      end else string_of_int (hash_ints b)
  | _ ->
      let ver = nth_or b 0 in
      let hl = if ver = 4 then 20 else 40 in
      Printf.sprintf "%d.%d.%d.%d.%d.%d/%d" ver (nth_or b 1) (nth_or b 2) (nth_or b 3) (nth_or b 4) (nth_or b 5)
        (hash_ints (drop hl b))

let show_rres (kind : int) (r : rres) : string =
  match r with
  | RR_Err e -> Printf.sprintf "ret err %s" (sz e)
  | RR_Trunc (_, _) -> "ret err 4"
  | RR_Ok (n, m, data) ->
      Printf.sprintf "ret ok %s %s %s %s %s" (sz n) (rx_hash kind (iz m.dm_addr.a_ver = 4) (il data))
        (addr_s m.dm_addr) (sz m.dm_port) (oaddr_s m.dm_local)

let show_frame (f : frame_out) : string =
  match f with
  | FO_Frag (off, len, more) -> Printf.sprintf "frag %s %s %d" (sz off) (sz len) (if more then 1 else 0)
  | FO_Aux (k, a) ->
      let k = iz k in
      Printf.sprintf "aux %s %s" (if k = 1 then "arp" else if k = 2 then "ns" else "reply") (addr_s a)
  | FO_Pkt p ->
      let pl = il p.p_payload in
      (match iz p.p_kind with
       | 1 -> Printf.sprintf "tx udp %s %s %s %s %s %d %d" (addr_s p.p_src) (sz p.p_sport) (addr_s p.p_dst)
                (sz p.p_dport) (sz p.p_hop) (List.length pl) (hash_ints pl)
       | 2 -> Printf.sprintf "tx icmp %s %s %s %d %d" (addr_s p.p_src) (addr_s p.p_dst) (sz p.p_hop)
                (List.length pl) (hash_ints (take 2 pl @ drop 4 pl))
       | _ -> Printf.sprintf "tx raw %s %s %s %s %s %d %d" (sz p.p_src.a_ver) (sz p.p_proto) (addr_s p.p_src)
                (addr_s p.p_dst) (sz p.p_hop) (List.length pl) (hash_ints pl))

let sock_of_spec (s : string) : sock =
  match split ',' s with
  | "udp" :: a :: b :: c :: d :: _ -> SUdp (udp_new (pq_new (zs a) (zs b)) (pq_new (zs c) (zs d)))
  | "icmp" :: a :: b :: c :: d :: _ -> SIcmp (icmp_new (pq_new (zs a) (zs b)) (pq_new (zs c) (zs d)))
  | "raw" :: a :: b :: c :: d :: v :: p :: _ ->
      let o x = if x = "-" then None else Some (zs x) in
      SRaw (raw_new (o v) (o p) (pq_new (zs a) (zs b)) (pq_new (zs c) (zs d)))
  | _ -> failwith ("bad socket spec " ^ s)

let icmp_msg_echo src dst req ident seq data : icmp_msg =
  let ver = iz src.a_ver in
  let ty = if ver = 4 then (if req then 8 else 0) else (if req then 128 else 129) in
  { im_src = src; im_dst = dst; im_kind = zi (if req then 1 else 2); im_ident = zi ident;
    im_inner_udp = None; im_inner_tcp = None;
    im_bytes = zl ([ty; 0; 0; 0; ident lsr 8; ident land 255; seq lsr 8; seq land 255] @ data) }

let icmp_msg_err src dst unreach inner_tcp sport inner_ok data : icmp_msg =
  let v4 = iz src.a_ver = 4 in
  let ty = if v4 then (if unreach then 3 else 11) else (if unreach then 1 else 3) in
  let code = if unreach then (if v4 then 3 else 4) else 0 in
  let hl = if v4 then 20 else 40 in
  let tl = if inner_tcp then 20 else 8 in
  let proto_at = if v4 then 8 + 9 else 8 + 6 in
  let hdr = List.init (8 + hl + tl) (fun i ->
    if i = 0 then ty else if i = 1 then code
    else if i = proto_at then (if inner_tcp then 6 else 17) else 0) in
  { im_src = src; im_dst = dst; im_kind = zi (if unreach then 3 else 4); im_ident = Z0;
    im_inner_udp = (if inner_ok && not inner_tcp then Some (zi sport) else None);
    im_inner_tcp = (if inner_ok && inner_tcp then Some (zi sport) else None);
    im_bytes = zl (hdr @ data) }

(* ck=<ipv4><udp><icmpv4><icmpv6>, each B(oth) T(x) R(x) N(one): a protocol whose checksum the
   device is said to verify (T or N) is accepted with a bad checksum *)
let ck_caps = ref "BBBB"
let rx_verified (i : int) : bool = let c = (!ck_caps).[i] in c = 'B' || c = 'R'

let event_of (kinds : int array) (line : string) : dg_event =
  let w = words line in
  let k s = nat_of_int (int_of_string s) in
  let meta a p l = { dm_addr = addr_of a; dm_port = zs p; dm_local = oaddr_of l } in
  match w with
  | ["bind"; s; "udp"; a; p] -> EvSock (k s, OpBind (BindUdp (oaddr_of a, zs p)))
  | ["bind"; s; "icmp"; "unspec"] -> EvSock (k s, OpBind (BindIcmp IE_Unspecified))
  | ["bind"; s; "icmp"; "ident"; i] -> EvSock (k s, OpBind (BindIcmp (IE_Ident (zs i))))
  | ["bind"; s; "icmp"; "udp"; a; p] -> EvSock (k s, OpBind (BindIcmp (IE_Udp (oaddr_of a, zs p))))
  | ["bind"; s; "icmp"; "tcp"; a; p] -> EvSock (k s, OpBind (BindIcmp (IE_Tcp (oaddr_of a, zs p))))
  | ["close"; s] -> EvSock (k s, OpClose)
  | ["hop"; s; h] -> EvSock (k s, OpSetHop (if h = "-" then None else Some (zs h)))
  | ["send"; s; spec; a; p; l] ->
      let d = payload_of 0 spec in
      EvSock (k s, OpSend (zi (List.length d), meta a p l, zl d))
  | ["sendw"; s; mx; spec; a; p; l] ->
      let d = payload_of 0 spec in
      EvSock (k s, OpSendWith (zs mx, meta a p l, zl d))
  | ["recv"; s] -> EvSock (k s, OpRecv)
  | ["recvs"; s; c] -> EvSock (k s, OpRecvSlice (zs c))
  | ["peek"; s] -> EvSock (k s, OpPeek)
  | ["peeks"; s; c] -> EvSock (k s, OpPeekSlice (zs c))
  | ["inject"; "udp"; src; sp; dst; dp; spec; st] ->
      EvInject (FI_Udp (addr_of src, zs sp, addr_of dst, zs dp, zl (payload_of 0 spec),
                        zi (if st = "ok" then 0 else if st = "trunc" then 1 else if rx_verified 1 then 2 else 0)))
  | ["inject"; "echo"; src; dst; kind; ident; seq; spec; st] ->
      EvInject (FI_Icmp (icmp_msg_echo (addr_of src) (addr_of dst) (kind = "req") (int_of_string ident)
                           (int_of_string seq) (payload_of 0 spec),
                         st = "ok" || not (rx_verified (if (addr_of src).a_ver = zi 4 then 2 else 3))))
  | ["inject"; "err"; src; dst; kind; inner; sport; ist; spec; st] ->
      EvInject (FI_Icmp (icmp_msg_err (addr_of src) (addr_of dst) (kind = "unreach") (inner = "tcp")
                           (int_of_string sport) (ist = "ok" || (inner = "udp" && not (rx_verified 1))) (payload_of 0 spec),
                         st = "ok" || not (rx_verified (if (addr_of src).a_ver = zi 4 then 2 else 3))))
  | ["inject"; "other"; ver; proto; src; dst; hop; spec] ->
      let d = payload_of 0 spec in
      EvInject (FI_Other ({ ir_ver = zs ver; ir_src = addr_of src; ir_dst = addr_of dst; ir_proto = zs proto;
                            ir_hop = zs hop; ir_plen = zi (List.length d) }, zl d))
  | ["inject"; "neigh"; a] -> EvInject (FI_Neigh (addr_of a))
  | ["budget"; b] -> EvBudget (if b = "-" then None else Some (zs b))
  | ["poll"; t] -> EvPoll (zs t)
  | ["remove"; s] -> EvRemove (k s)
  | _ -> failwith ("bad event " ^ line)

let b01 b = if b then 1 else 0

let () =
  iter_cases (fun id cfg ops ->
    Printf.printf "case %s\n" id;
    let n = int_of_string (cfg_get cfg "n" "0") in
    let socks = List.init n (fun i -> sock_of_spec (cfg_get cfg (Printf.sprintf "s%d" i) "")) in
    let kinds = Array.of_list (List.map (fun s -> iz (sock_kind s)) socks) in
    ck_caps := cfg_get cfg "ck" "BBBB";
    let ev = std_env (zs (cfg_get cfg "fam" "4")) in
    let st = ref (if_new (cfg_get cfg "med" "ip" = "eth") (zs (cfg_get cfg "mtu" "1500"))) in
    let ss = ref (List.map (fun s -> (meta_new, s)) socks) in
    let dead = ref false in
    List.iter (fun line ->
      if not !dead then begin
        let e = event_of kinds line in
        match dg_step ev !st !ss e with
        | Panic -> print_string "PANIC\n"; dead := true
        | Err _ -> print_string "PANIC\n"; dead := true
        | Ok ((st', ss'), obs) ->
            st := st'; ss := ss';
            (match obs, e with
             | ObsSock r, EvSock (kn, _) ->
                 let kind = (try kinds.(int_of_z (Z.of_nat kn)) with _ -> 0) in
                 (match r with
                  | SR_Unit -> print_string "ret unit\n"
                  | SR_Code c -> Printf.printf "ret %s\n" (sz c)
                  | SR_Recv rr -> Printf.printf "%s\n" (show_rres kind rr)
                  | SR_NA -> print_string "ret na\n"
                  | _ -> print_string "ret ?\n")
             | ObsFrames l, _ -> List.iter (fun f -> Printf.printf "%s\n" (show_frame f)) l
             | _, _ -> ());
            List.iteri (fun i (_, s) ->
              Printf.printf "q %d %d %d %d %s %s\n" i (b01 (sock_is_open s)) (b01 (sock_can_send s))
                (b01 (sock_can_recv s)) (sz (sock_send_queue s)) (sz (sock_recv_queue s))) !ss
      end) ops)
