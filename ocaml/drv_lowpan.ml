(* model side of streams `lowpan-wire` and `lowpan` (see harness/src/bin/h_lowpan.rs for the formats) *)
let kv (toks : string list) (k : string) : string =
  let pre = k ^ "=" in
  let n = String.length pre in
  let rec go = function
    | [] -> failwith ("missing key " ^ k)
    | t :: r -> if String.length t >= n && String.sub t 0 n = pre
                then String.sub t n (String.length t - n) else go r in
  go toks
let kvz toks k = zs (kv toks k)
let last toks = List.nth toks (List.length toks - 1)
let zi = z_of_int
let iz = int_of_z
let rec repeat_z x n = if n <= 0 then [] else x :: repeat_z x (n - 1)

let show_out (f : 'a -> string) (o : 'a outcome) : string =
  match o with Ok a -> f a | Err _ -> "E" | Panic -> "PANIC"

let ll_parse (s : string) : iphc_ll option =
  match s with
  | "-" -> None
  | "a" -> Some LlAbsent
  | _ ->
    let h = String.sub s 2 (String.length s - 2) in
    if s.[0] = 's' then Some (LlShort (bytes_of_hex h)) else Some (LlExtended (bytes_of_hex h))

(* ---------- stream lowpan-wire ---------- *)
let ext_parse_show (b : z list) : string =
  match nhc_ext_new_checked b with
  | Err _ -> "E" | Panic -> "PANIC"
  | Ok () ->
    (match nhc_ext_repr_parse b, nhc_ext_payload b with
     | Panic, _ | _, Panic -> "PANIC"
     | Err _, _ | _, Err _ -> "E"
     | Ok r, Ok pl ->
       Printf.sprintf "id=%s nh=%s len=%s blen=%s pl=%s" (sz r.ne_eid)
         (match r.ne_next with None -> "c" | Some p -> sz p) (sz r.ne_length)
         (sz (nhc_ext_buffer_len r)) (hex_of_bytes pl))

let wire_op (t : string list) : string =
  match t with
  | "ext_emit" :: _ ->
      let r = { ne_eid = kvz t "id"; ne_next = (match kv t "nh" with "c" -> None | s -> Some (zs s));
                ne_length = kvz t "len" } in
      let n = nhc_ext_buffer_len r in
      let buf = repeat_z (kvz t "fill") (iz n + int_of_string (kv t "extra")) in
      (match nhc_ext_emit r buf with
       | Ok b -> Printf.sprintf "%s %s | %s" (sz n) (hex_of_bytes b) (ext_parse_show b)
       | Err _ -> "E" | Panic -> "PANIC")
  | "ext_parse" :: _ -> ext_parse_show (bytes_of_hex (last t))
  | "frag_emit" :: _ ->
      let size = kvz t "size" and tag = kvz t "tag" and off = kvz t "off" in
      let r = if kv t "k" = "1" then SfFirst (size, tag) else SfNext (size, tag, off) in
      let n = iz (sixfrag_buffer_len r) + int_of_string (kv t "extra") in
      show_out hex_of_bytes (sixfrag_emit r (repeat_z (kvz t "fill") n))
  | "frag_parse" :: _ ->
      let b = bytes_of_hex (last t) in
      (match sixfrag_new_checked b with
       | Err _ -> "E" | Panic -> "PANIC"
       | Ok () ->
         (match sixfrag_parse b, sixfrag_payload b with
          | Panic, _ | _, Panic -> "PANIC"
          | Err _, _ | _, Err _ -> "E"
          | Ok (SfFirst (s, g)), Ok pl -> Printf.sprintf "first %s %s pl=%s" (sz s) (sz g) (hex_of_bytes pl)
          | Ok (SfNext (s, g, o)), Ok pl -> Printf.sprintf "next %s %s %s pl=%s" (sz s) (sz g) (sz o) (hex_of_bytes pl)))
  | "nhc_emit" :: _ ->
      let r = { np_src = kvz t "sp"; np_dst = kvz t "dp" } in
      let pl = bytes_of_hex (kv t "pl") in
      let src = bytes_of_hex (kv t "src") and dst = bytes_of_hex (kv t "dst") in
      let hl = nhc_udp_header_len r in
      let buf = repeat_z (kvz t "fill") (iz hl + List.length pl) in
      show_out (fun b -> Printf.sprintf "%s %s" (sz hl) (hex_of_bytes b)) (nhc_udp_emit r src dst pl true buf)
  | "nhc_parse" :: _ ->
      let b = bytes_of_hex (last t) in
      let src = bytes_of_hex (kv t "src") and dst = bytes_of_hex (kv t "dst") in
      let rx = kv t "rx" = "1" in
      (match nhc_udp_check_len b with
       | Err _ -> "E" | Panic -> "PANIC"
       | Ok () ->
         (match nhc_udp_parse b src dst rx with
          | Err _ -> "E" | Panic -> "PANIC"
          | Ok r ->
            (match nhc_udp_checksum b, nhc_udp_payload b with
             | Ok c, Ok pl ->
                 Printf.sprintf "%s %s ck=%s pl=%s" (sz r.np_src) (sz r.np_dst)
                   (match c with Some c -> sz c | None -> "-") (hex_of_bytes pl)
             | _ -> "PANIC")))
  | "iphc_emit" :: _ ->
      let r = { ir_src = bytes_of_hex (kv t "src"); ir_ll_src = ll_parse (kv t "lls");
                ir_dst = bytes_of_hex (kv t "dst"); ir_ll_dst = ll_parse (kv t "lld");
                ir_nh = (match kv t "nh" with "c" -> None | s -> Some (zs s));
                ir_hl = kvz t "hl"; ir_ecn = None; ir_dscp = None; ir_flow = None } in
      (match iphc_buffer_len r with
       | Ok n ->
           let buf = repeat_z (kvz t "fill") (iz n + int_of_string (kv t "extra")) in
           show_out (fun b -> Printf.sprintf "%s %s" (sz n) (hex_of_bytes b)) (iphc_emit r buf)
       | _ -> "PANIC")
  | "iphc_parse" :: _ ->
      let b = bytes_of_hex (last t) in
      let ctx = match kv t "ctx" with "-" -> [] | s -> List.map bytes_of_hex (String.split_on_char ',' s) in
      (match iphc_check_len b with
       | Err _ -> "E" | Panic -> "PANIC"
       | Ok () ->
         (match iphc_parse b (ll_parse (kv t "lls")) (ll_parse (kv t "lld")) ctx with
          | Err _ -> "E" | Panic -> "PANIC"
          | Ok r ->
            let o = function Some v -> sz v | None -> "-" in
            Printf.sprintf "src=%s dst=%s nh=%s hl=%s tf=%s/%s/%s hlen=%s"
              (hex_of_bytes r.ir_src) (hex_of_bytes r.ir_dst)
              (match r.ir_nh with None -> "c" | Some p -> sz p) (sz r.ir_hl)
              (o r.ir_ecn) (o r.ir_dscp) (o r.ir_flow)
              (show_out sz (iphc_header_len b))))
  | op :: _ -> failwith ("unknown wire op " ^ op)
  | [] -> failwith "empty op"

(* ---------- stream lowpan (two interfaces) ---------- *)
(* what a raw socket shows for a datagram that starts with a hop-by-hop header: smoltcp hands the
   upper-layer part to the raw socket of the upper protocol together with the unchanged IPv6 header *)
let canon_rx (d : z list) : z list =
  let a = Array.of_list d in
  if Array.length a >= 48 && iz a.(6) = 0 then begin
    let l = (iz a.(41) + 1) * 8 in
    if Array.length a >= 40 + l then
      Array.to_list (Array.sub a 0 40) @ Array.to_list (Array.sub a (40 + l) (Array.length a - 40 - l))
    else d
  end else d

(* link-layer address octets, frame octets and polls are the extracted Model/LowpanLive.v definitions
   (lpl_ll_bytes, lpl_frame_octets / lpl_tx_octets, lpl_poll): the objects of the C20live theorems *)
let ll_bytes (l : iphc_ll option) : z list = lpl_ll_bytes l

let split_refs (s : string) : z list list =
  if s = "-" then [] else List.map bytes_of_hex (String.split_on_char ',' s)

(* same permutation as harness `schedule` *)
let schedule (spec : string) (n : int) : int list =
  let v = Array.init n (fun i -> i) in
  let t = Array.of_list (String.split_on_char ':' spec) in
  let k i = if i < Array.length t then (try int_of_string t.(i) with _ -> 0) else 0 in
  if n <= 1 then Array.to_list v else begin
    let l = Array.to_list v in
    match t.(0) with
    | "rev" -> List.rev l
    | "rot" -> let r = k 1 mod n in List.init n (fun i -> (i + r) mod n)
    | "dup" ->
        let j = k 1 mod n in
        let pos = (k 1 / 7) mod (n + 1) in
        let rec ins i = function
          | rest when i = pos -> j :: rest
          | x :: rest -> x :: ins (i + 1) rest
          | [] -> [j] in
        ins 0 l
    | "drop" -> let j = k 1 mod n in List.filter (fun x -> x <> j) l
    | "swap" ->
        let a = k 1 mod n and b = k 2 mod n in
        List.map (fun x -> if x = a then b else if x = b then a else x) l
    | _ -> l
  end

type node = { mutable tag : int; mutable slots : lpf_slot list; ll : iphc_ll option }

let e2e_case (cfg : (string * string) list) (ops : string list) : unit =
  let lla = ll_parse (cfg_get cfg "lla" "-") and llb = ll_parse (cfg_get cfg "llb" "-") in
  let dst = cfg_get cfg "dst" "ll" in
  let mcast = String.length dst > 2 && String.sub dst 0 2 = "m:" in
  let bcast = Some (LlShort [zi 255; zi 255]) in
  let a = { tag = 0; slots = lpf_slots_new; ll = lla } and b = { tag = 0; slots = lpf_slots_new; ll = llb } in
  let ctx = match cfg_get cfg "ctx" "-" with "-" -> [] | c -> List.map bytes_of_hex (String.split_on_char ',' c) in
  let now = ref (if mcast then 0 else 10) in
  let timeout = 60000 in
  (* one datagram from [snd] to [rcv]: print frames, deliver per schedule, print deliveries *)
  let send (dir : string) (snd : node) (rcv : node) (ll_dst : iphc_ll option) (refs : z list list) (sched : string) =
    let all = ref [] in
    let ndg = ref 0 in
    List.iter (fun r ->
      match lp_dgram_of_bytes r with
      | Ok d ->
        (match lp_dispatch d (ll_bytes snd.ll) (ll_bytes ll_dst) snd.ll ll_dst (zi snd.tag) (zi 0) with
         | Ok [] -> ()   (* dropped: does not fit the fragmentation buffer *)
         | Ok frames ->
           incr ndg;
           Printf.printf "dg %s n=%d\n" dir (List.length frames);
           let ieee = lpf_ieee_len (ll_bytes ll_dst) (ll_bytes snd.ll) in
           let fragmented = ref false in
           let pls = List.map (fun f ->
             match f.fr_hdr with
             | None ->
                 Printf.printf "f %s plain %s\n" (sz ieee) (hex_of_bytes f.fr_payload); f.fr_payload
             | Some h ->
                 fragmented := true;
                 (match h with
                  | SfFirst (s, t) ->
                      Printf.printf "f %s first %s %s %s\n" (sz ieee) (sz s) (sz t) (hex_of_bytes f.fr_payload)
                  | SfNext (s, t, o) ->
                      Printf.printf "f %s next %s %s %s %s\n" (sz ieee) (sz s) (sz t) (sz o) (hex_of_bytes f.fr_payload));
                 (match lpl_frame_octets f (repeat_z (zi 0xa5) (iz (lpl_txbuf_len f))) with
                  | Ok o -> o | _ -> failwith "frag hdr")) frames in
           (* the composed egress function of the end-to-end theorems gives the same octets *)
           (match lpl_tx_octets d snd.ll ll_dst (zi snd.tag) (zi 0) (zi 0x5a) with
            | Ok os when os = pls -> ()
            | _ -> Printf.printf "dg %s MODEL-TXOCTETS-MISMATCH\n" dir);
           if !fragmented then snd.tag <- (snd.tag + 1) land 0xffff;
           all := !all @ [pls]
         | Err _ -> Printf.printf "dg %s MODEL-ERR\n" dir
         | Panic -> Printf.printf "dg %s MODEL-PANIC\n" dir)
      | _ -> Printf.printf "dg %s BAD-REF\n" dir) refs;
    if !ndg = 0 then Printf.printf "dg %s n=0\n" dir;
    (* delivery *)
    rcv.slots <- lpf_remove_expired (zi !now) rcv.slots;
    let got = ref 0 in
    let deliver (o : z list) =
      match lpl_poll ctx (zi timeout) { ar_time = zi !now; ar_lls = snd.ll; ar_lld = ll_dst; ar_payload = o } rcv.slots with
      | Ok (ss, d) ->
          rcv.slots <- ss;
          (match d with Some x -> incr got; Printf.printf "rx %s %s\n" dir (hex_of_bytes x) | None -> ())
      | Err _ -> ()
      | Panic -> Printf.printf "rx %s MODEL-PANIC\n" dir in
    if sched = "il" then begin
      (* the datagrams of a burst interleaved frame by frame (same order as the harness) *)
      let gs = List.map Array.of_list !all in
      let m = List.fold_left (fun a g -> max a (Array.length g)) 0 gs in
      for i = 0 to m - 1 do
        List.iter (fun g -> if i < Array.length g then deliver g.(i)) gs
      done
    end else
      List.iter (fun pls ->
        let arr = Array.of_list pls in
        List.iter (fun j -> deliver arr.(j)) (schedule sched (Array.length arr))) !all;
    if !got = 0 then Printf.printf "rx %s -\n" dir;
    !got in
  List.iter (fun op ->
    let t = words op in
    match t with
    | "wait" :: _ ->
        now := !now + int_of_string (kv t "ms");
        a.slots <- lpf_remove_expired (zi !now) a.slots;
        b.slots <- lpf_remove_expired (zi !now) b.slots
    | ("udp" | "burst" | "echo" | "tcp") :: _ ->
        let sched = if List.hd t = "burst" && List.mem "il=1" t then "il"
                    else if List.hd t = "burst" || List.hd t = "tcp" then "io" else kv t "sched" in
        let got = send "ab" a b (if mcast then bcast else llb) (split_refs (kv t "ref")) sched in
        let rr = split_refs (kv t "rref") in
        (* the receiver only answers what it received (a TCP peer may also speak on its own: delayed ACK, FIN) *)
        if rr <> [] && (got > 0 || List.hd t = "tcp") then ignore (send "ba" b a lla rr "io");
        now := !now + (if List.hd t = "tcp" then 50 else 1)
    | "recv" :: _ ->
        let ll_dst = if kv t "bc" = "1" then bcast else llb in
        b.slots <- lpf_remove_expired (zi !now) b.slots;
        (match lpl_poll ctx (zi timeout) { ar_time = zi !now; ar_lls = lla; ar_lld = ll_dst;
                                            ar_payload = bytes_of_hex (kv t "pl") } b.slots with
         | Ok (ss, d) ->
             b.slots <- ss;
             (match d with Some x -> Printf.printf "rx ab %s\n" (hex_of_bytes (canon_rx x)) | None -> Printf.printf "rx ab -\n")
         | Err _ -> Printf.printf "rx ab -\n"
         | Panic -> Printf.printf "rx ab MODEL-PANIC\n");
        now := !now + 1
    | _ -> failwith ("unknown e2e op " ^ op)) ops

let () =
  iter_cases (fun id cfg ops ->
    Printf.printf "case %s\n" id;
    match cfg_get cfg "s" "wire" with
    | "wire" -> List.iter (fun op -> Printf.printf "r %s\n" (wire_op (words op))) ops
    | "e2e" -> e2e_case cfg ops
    | "inject" ->
        (* whole-interface injection: the model's claim is "no panic" (C20_decompress_no_panic and the
           parse_no_panic theorems for the 6LoWPAN part; the rest of the ingress path is property C03) *)
        List.iter (fun op -> match words op with "f" :: _ -> Printf.printf "r ok\n" | _ -> ()) ops
    | s -> failwith ("unknown stream " ^ s))
