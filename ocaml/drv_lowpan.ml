(* model side of streams `lowpan-wire` and `lowpan` (see harness/src/bin/h_lowpan.rs for the formats) *)
let kv (toks : string list) (k : string) : string =
  let pre = k ^ "=" in
  let n = String.length pre in
  let rec go = function
    | [] -> failwith ("missing key " ^ k)
    | t :: r -> if String.length t >= n && String.sub t 0 n = pre
                then String.sub t n (String.length t - n) else go r in
  go toks
let kvz toks k = zs (kv toks k)
let last toks = List.nth toks (List.length toks - 1)
let zi = z_of_int
let iz = int_of_z
let rec repeat_z x n = if n <= 0 then [] else x :: repeat_z x (n - 1)

let show_out (f : 'a -> string) (o : 'a outcome) : string =
  match o with Ok a -> f a | Err _ -> "E" | Panic -> "PANIC"

let ll_parse (s : string) : iphc_ll option =
  match s with
  | "-" -> None
  | "a" -> Some LlAbsent
  | _ ->
    let h = String.sub s 2 (String.length s - 2) in
    if s.[0] = 's' then Some (LlShort (bytes_of_hex h)) else Some (LlExtended (bytes_of_hex h))

(* ---------- stream lowpan-wire ---------- *)
let wire_op (t : string list) : string =
  match t with
  | "frag_emit" :: _ ->
      let size = kvz t "size" and tag = kvz t "tag" and off = kvz t "off" in
      let r = if kv t "k" = "1" then SfFirst (size, tag) else SfNext (size, tag, off) in
      let n = iz (sixfrag_buffer_len r) + int_of_string (kv t "extra") in
      show_out hex_of_bytes (sixfrag_emit r (repeat_z (kvz t "fill") n))
  | "frag_parse" :: _ ->
      let b = bytes_of_hex (last t) in
      (match sixfrag_new_checked b with
       | Err _ -> "E" | Panic -> "PANIC"
       | Ok () ->
         (match sixfrag_parse b, sixfrag_payload b with
          | Panic, _ | _, Panic -> "PANIC"
          | Err _, _ | _, Err _ -> "E"
          | Ok (SfFirst (s, g)), Ok pl -> Printf.sprintf "first %s %s pl=%s" (sz s) (sz g) (hex_of_bytes pl)
          | Ok (SfNext (s, g, o)), Ok pl -> Printf.sprintf "next %s %s %s pl=%s" (sz s) (sz g) (sz o) (hex_of_bytes pl)))
  | "nhc_emit" :: _ ->
      let r = { np_src = kvz t "sp"; np_dst = kvz t "dp" } in
      let pl = bytes_of_hex (kv t "pl") in
      let src = bytes_of_hex (kv t "src") and dst = bytes_of_hex (kv t "dst") in
      let hl = nhc_udp_header_len r in
      let buf = repeat_z (kvz t "fill") (iz hl + List.length pl) in
      show_out (fun b -> Printf.sprintf "%s %s" (sz hl) (hex_of_bytes b)) (nhc_udp_emit r src dst pl true buf)
  | "nhc_parse" :: _ ->
      let b = bytes_of_hex (last t) in
      let src = bytes_of_hex (kv t "src") and dst = bytes_of_hex (kv t "dst") in
      let rx = kv t "rx" = "1" in
      (match nhc_udp_check_len b with
       | Err _ -> "E" | Panic -> "PANIC"
       | Ok () ->
         (match nhc_udp_parse b src dst rx with
          | Err _ -> "E" | Panic -> "PANIC"
          | Ok r ->
            (match nhc_udp_checksum b, nhc_udp_payload b with
             | Ok c, Ok pl ->
                 Printf.sprintf "%s %s ck=%s pl=%s" (sz r.np_src) (sz r.np_dst)
                   (match c with Some c -> sz c | None -> "-") (hex_of_bytes pl)
             | _ -> "PANIC")))
  | "iphc_emit" :: _ ->
      let r = { ir_src = bytes_of_hex (kv t "src"); ir_ll_src = ll_parse (kv t "lls");
                ir_dst = bytes_of_hex (kv t "dst"); ir_ll_dst = ll_parse (kv t "lld");
                ir_nh = (match kv t "nh" with "c" -> None | s -> Some (zs s));
                ir_hl = kvz t "hl"; ir_ecn = None; ir_dscp = None; ir_flow = None } in
      (match iphc_buffer_len r with
       | Ok n ->
           let buf = repeat_z (kvz t "fill") (iz n + int_of_string (kv t "extra")) in
           show_out (fun b -> Printf.sprintf "%s %s" (sz n) (hex_of_bytes b)) (iphc_emit r buf)
       | _ -> "PANIC")
  | "iphc_parse" :: _ ->
      let b = bytes_of_hex (last t) in
      let ctx = match kv t "ctx" with "-" -> [] | s -> List.map bytes_of_hex (String.split_on_char ',' s) in
      (match iphc_check_len b with
       | Err _ -> "E" | Panic -> "PANIC"
       | Ok () ->
         (match iphc_parse b (ll_parse (kv t "lls")) (ll_parse (kv t "lld")) ctx with
          | Err _ -> "E" | Panic -> "PANIC"
          | Ok r ->
            let o = function Some v -> sz v | None -> "-" in
            Printf.sprintf "src=%s dst=%s nh=%s hl=%s tf=%s/%s/%s hlen=%s"
              (hex_of_bytes r.ir_src) (hex_of_bytes r.ir_dst)
              (match r.ir_nh with None -> "c" | Some p -> sz p) (sz r.ir_hl)
              (o r.ir_ecn) (o r.ir_dscp) (o r.ir_flow)
              (show_out sz (iphc_header_len b))))
  | op :: _ -> failwith ("unknown wire op " ^ op)
  | [] -> failwith "empty op"

let () =
  iter_cases (fun id cfg ops ->
    Printf.printf "case %s\n" id;
    match cfg_get cfg "s" "wire" with
    | "wire" -> List.iter (fun op -> Printf.printf "r %s\n" (wire_op (words op))) ops
    | s -> failwith ("unknown stream " ^ s))
