(* model side of the streams `wire2-ieee154-emit` / `wire2-ieee154-parse` (IEEE 802.15.4 frames;
   case/observation format: harness/src/bin/h_wire2_ieee154.rs and wire2/fmt_ieee154.rs).
   A case is `case <id> fmt=<fmt>` followed by ops
     emit  buf=<hex> <repr fields k=v ...>      ->  `ret <bytes|PANIC> | <parse of the result>`
     parse bytes=<hex> <context k=v ...>         ->  `chk <ok|err|PANIC> [acc ...] parse <...>` *)

let kvs (op : string) : (string * string) list =
  List.filter_map (fun w ->
    match String.index_opt w '=' with
    | Some i -> Some (String.sub w 0 i, String.sub w (i + 1) (String.length w - i - 1))
    | None -> None) (words op)

let get kv k = try List.assoc k kv with Not_found -> failwith ("missing field " ^ k)
let geti kv k = zs (get kv k)
let getb kv k = bytes_of_hex (get kv k)
let getbool kv k = (try List.assoc k kv with Not_found -> "0") = "1"
let geto kv k = try Some (List.assoc k kv) with Not_found -> None

(* byte strings: hex up to 24 octets, otherwise #len:hash  (h = h*31 + b mod 2^30, from 7) *)
let show_bytes (l : z list) : string =
  let n = List.length l in
  if n <= 24 then hex_of_bytes l
  else
    let h = List.fold_left (fun h b -> (h * 31 + (int_of_z b land 255)) land 0x3fffffff) 7 l in
    Printf.sprintf "#%d:%x" n h

let show_o (f : 'a -> string) (x : 'a outcome) : string =
  match x with Ok a -> f a | Err _ -> "Err" | Panic -> "PANIC"
let oz = show_o sz
let ob = show_o show_bytes
let obool = show_o (fun b -> if b then "1" else "0")
let ohex = show_o hex_of_bytes
let chk (x : unit outcome) : string = match x with Ok _ -> "ok" | Err _ -> "err" | Panic -> "PANIC"
let is_ok x = match x with Ok _ -> true | _ -> false
let b01 b = if b then "1" else "0"

(* u64 values (IGMP max_resp_time in µs) do not fit OCaml's 63-bit int: decimal string <-> z *)
let z_of_dec (s : string) : z =
  (* positive decimal -> z by repeated doubling on a digit array *)
  let digits = Array.init (String.length s) (fun i -> Char.code s.[i] - 48) in
  let n = Array.length digits in
  let is_zero () = Array.for_all (fun d -> d = 0) digits in
  let div2 () = let c = ref 0 in
    for i = 0 to n - 1 do let v = !c * 10 + digits.(i) in digits.(i) <- v / 2; c := v mod 2 done; !c in
  let rec bits () = if is_zero () then [] else let b = div2 () in b :: bits () in
  let bl = bits () in
  let rec pos = function
    | [] -> failwith "z_of_dec"
    | [1] -> XH
    | b :: tl -> if b = 1 then XI (pos tl) else XO (pos tl) in
  if bl = [] then Z0 else Zpos (pos bl)

let dec_of_z (x : z) : string =
  let rec bits p = match p with XH -> [1] | XO q -> 0 :: bits q | XI q -> 1 :: bits q in
  match x with
  | Z0 -> "0"
  | Zneg _ -> "-?"
  | Zpos p ->
      let bl = List.rev (bits p) in   (* most significant first *)
      let digits = ref [0] in         (* little-endian decimal digits *)
      List.iter (fun b ->
        let c = ref b in
        digits := List.map (fun d -> let v = d * 2 + !c in c := v / 10; v mod 10) !digits;
        if !c > 0 then digits := !digits @ [!c]) bl;
      String.concat "" (List.rev_map string_of_int !digits)

(* ---------------- IEEE 802.15.4 ---------------- *)
let onone f x = match x with None -> "none" | Some v -> f v
let f154_show_addr a = match a with
  | None -> "none"
  | Some F154Absent -> "absent"
  | Some (F154Short v) -> hex_of_bytes v
  | Some (F154Ext v) -> hex_of_bytes v
let f154_show r =
  Printf.sprintf "Ok ft=%s sec=%s fp=%s ar=%s seq=%s c=%s ver=%s dpan=%s dst=%s span=%s src=%s"
    (sz r.f154_r_frame_type) (b01 r.f154_r_security) (b01 r.f154_r_pending) (b01 r.f154_r_ack_request)
    (onone sz r.f154_r_seq) (b01 r.f154_r_compression) (sz r.f154_r_version)
    (onone sz r.f154_r_dst_pan) (f154_show_addr r.f154_r_dst_addr)
    (onone sz r.f154_r_src_pan) (f154_show_addr r.f154_r_src_addr)
let f154_addr_of s = match s with
  | "none" -> None
  | "absent" -> Some F154Absent
  | h -> let b = bytes_of_hex h in if List.length b = 2 then Some (F154Short b) else Some (F154Ext b)
let f154_oz s = if s = "none" then None else Some (zs s)
let f154_repr kv =
  { f154_r_frame_type = geti kv "ft"; f154_r_security = getbool kv "sec"; f154_r_pending = getbool kv "fp";
    f154_r_ack_request = getbool kv "ar"; f154_r_seq = f154_oz (get kv "seq");
    f154_r_compression = getbool kv "c"; f154_r_version = geti kv "ver";
    f154_r_dst_pan = f154_oz (get kv "dpan"); f154_r_dst_addr = f154_addr_of (get kv "dst");
    f154_r_src_pan = f154_oz (get kv "span"); f154_r_src_addr = f154_addr_of (get kv "src") }
let f154_emit_op kv =
  let r = f154_repr kv in
  let res = f154_emit r (getb kv "buf") in
  Printf.sprintf "ret %s | %s | blen=%s" (ob res)
    (match res with Ok bs -> show_o f154_show (f154_parse bs) | _ -> "-") (sz (f154_buffer_len r))
let f154_parse_op kv =
  let bs = getb kv "bytes" in
  let c = f154_check_len bs in
  let oo f = show_o (onone f) in
  Printf.sprintf "chk %s len %s%s parse %s" (chk (f154_new_checked bs)) (chk c)
    (if is_ok c then
       Printf.sprintf " acc ft=%s sec=%s fp=%s ar=%s c=%s sns=%s ie=%s dm=%s ver=%s sm=%s seq=%s dpan=%s dst=%s span=%s src=%s hdr=%s payload=%s%s"
         (oz (f154_frame_type bs)) (obool (f154_security_enabled bs)) (obool (f154_frame_pending bs))
         (obool (f154_ack_request bs)) (obool (f154_pan_id_compression bs))
         (obool (f154_sequence_number_suppression bs)) (obool (f154_ie_present bs))
         (oz (f154_dst_addressing_mode bs)) (oz (f154_frame_version bs)) (oz (f154_src_addressing_mode bs))
         (oo sz (f154_sequence_number bs)) (oo sz (f154_dst_pan_id bs)) (show_o f154_show_addr (f154_dst_addr bs))
         (oo sz (f154_src_pan_id bs)) (show_o f154_show_addr (f154_src_addr bs))
         (ob (f154_mac_header bs)) (oo show_bytes (f154_payload bs))
         (if f154_security_enabled bs = Ok true then
            Printf.sprintf " aux lvl=%s kim=%s fcs=%s fctr=%s ksrc=%s kidx=%s mic=%s"
              (oz (f154_security_level bs)) (oz (f154_key_identifier_mode bs))
              (obool (f154_frame_counter_suppressed bs)) (oo sz (f154_frame_counter bs))
              (oo show_bytes (f154_key_source bs)) (oo sz (f154_key_index bs))
              (oo show_bytes (f154_message_integrity_code bs))
          else "")
     else "")
    (show_o f154_show (f154_parse bs))

(* ---------------- dispatch ---------------- *)
let dispatch : (string * ((string * string) list -> string) * ((string * string) list -> string)) list = [
  ("ieee154", f154_emit_op, f154_parse_op);
]

let () =
  iter_cases (fun id cfg ops ->
    Printf.printf "case %s\n" id;
    let fmt = cfg_get cfg "fmt" "?" in
    let (_, fe, fp) =
      try List.find (fun (n, _, _) -> n = fmt) dispatch
      with Not_found -> failwith ("drv_wire2_ieee154: unknown format " ^ fmt) in
    List.iter (fun op ->
      let kv = kvs op in
      match words op with
      | "emit" :: _ -> print_endline (fe kv)
      | "parse" :: _ -> print_endline (fp kv)
      | _ -> failwith ("bad op " ^ op)) ops)
