(* model side of stream `cksum` (see harness/src/bin/h_cksum.rs for the case format) *)
let b01 (s : string) : bool = s <> "0"

let addr (fam : string) (h : string) : cksum_ipaddr =
  if fam = "4" then CkV4 (bytes_of_hex h) else CkV6 (bytes_of_hex h)

let show_z (o : z outcome) : string =
  match o with Ok v -> "ok " ^ sz v | Err e -> "err " ^ sz e | Panic -> "panic"

let show_b (o : bool outcome) : string =
  match o with Ok v -> (if v then "ok 1" else "ok 0") | Err e -> "err " ^ sz e | Panic -> "panic"

let show_l (o : z list outcome) : string =
  match o with Ok v -> "ok " ^ hex_of_bytes v | Err e -> "err " ^ sz e | Panic -> "panic"

let () =
  iter_cases (fun id cfg ops ->
    Printf.printf "case %s\n" id;
    let be = b01 (cfg_get cfg "be" "0") in
    let dbg = b01 (cfg_get cfg "dbg" "1") in
    (* oracle replay cases (kind=emit|iface) carry nothing for the model *)
    let ops = if cfg_get cfg "kind" "" <> "" then [] else ops in
    List.iter (fun op ->
      let r = match words op with
        | ["pc"; w] -> "ok " ^ sz (cksum_propagate_carries (zs w))
        | ["data"; _off; h] -> show_z (cksum_data dbg be (bytes_of_hex h))
        | "comb" :: ws -> "ok " ^ sz (cksum_combine (List.map zs ws))
        | ["ph4"; s; d; nh; len] ->
            show_z (cksum_pseudo_header_v4 dbg be (bytes_of_hex s) (bytes_of_hex d) (zs nh) (zs len))
        | ["ph6"; s; d; nh; len] ->
            show_z (cksum_pseudo_header_v6 dbg be (bytes_of_hex s) (bytes_of_hex d) (zs nh) (zs len))
        | ["ph"; fs; s; fd; d; nh; len] ->
            show_z (cksum_pseudo_header dbg be (addr fs s) (addr fd d) (zs nh) (zs len))
        | ["ip4v"; h] -> show_b (cksum_ipv4_verify dbg be (bytes_of_hex h))
        | ["ip4f"; h] -> show_l (cksum_ipv4_fill dbg be (bytes_of_hex h))
        | ["ip4p"; rx; h] -> show_b (cksum_ipv4_parse_check (b01 rx) dbg be (bytes_of_hex h))
        | ["ip4e"; tx; h] -> show_l (cksum_ipv4_emit_checksum (b01 tx) dbg be (bytes_of_hex h))
        | ["ic4v"; h] -> show_b (cksum_icmpv4_verify dbg be (bytes_of_hex h))
        | ["ic4f"; h] -> show_l (cksum_icmpv4_fill dbg be (bytes_of_hex h))
        | ["ic4p"; rx; h] -> show_b (cksum_icmpv4_parse_check (b01 rx) dbg be (bytes_of_hex h))
        | ["ic4e"; tx; h] -> show_l (cksum_icmpv4_emit_checksum (b01 tx) dbg be (bytes_of_hex h))
        | ["ic6v"; s; d; h] -> show_b (cksum_icmpv6_verify dbg be (bytes_of_hex s) (bytes_of_hex d) (bytes_of_hex h))
        | ["ic6f"; s; d; h] -> show_l (cksum_icmpv6_fill dbg be (bytes_of_hex s) (bytes_of_hex d) (bytes_of_hex h))
        | ["ic6p"; rx; s; d; h] ->
            show_b (cksum_icmpv6_parse_check (b01 rx) dbg be (bytes_of_hex s) (bytes_of_hex d) (bytes_of_hex h))
        | ["ic6e"; tx; s; d; h] ->
            show_l (cksum_icmpv6_emit_checksum (b01 tx) dbg be (bytes_of_hex s) (bytes_of_hex d) (bytes_of_hex h))
        | ["tcpv"; f; s; d; h] -> show_b (cksum_tcp_verify dbg be (addr f s) (addr f d) (bytes_of_hex h))
        | ["tcpf"; f; s; d; h] -> show_l (cksum_tcp_fill dbg be (addr f s) (addr f d) (bytes_of_hex h))
        | ["tcpp"; rx; f; s; d; h] ->
            show_b (cksum_tcp_parse_check (b01 rx) dbg be (addr f s) (addr f d) (bytes_of_hex h))
        | ["tcpe"; tx; f; s; d; h] ->
            show_l (cksum_tcp_emit_checksum (b01 tx) dbg be (addr f s) (addr f d) (bytes_of_hex h))
        | ["udpv"; f; s; d; h] -> show_b (cksum_udp_verify dbg be (addr f s) (addr f d) (bytes_of_hex h))
        | ["udpf"; f; s; d; h] -> show_l (cksum_udp_fill dbg be (addr f s) (addr f d) (bytes_of_hex h))
        | ["udpp"; rx; f; s; d; h] ->
            show_b (cksum_udp_parse_check (b01 rx) dbg be (addr f s) (addr f d) (bytes_of_hex h))
        | ["udpe"; tx; f; s; d; h] ->
            show_l (cksum_udp_emit_checksum (b01 tx) dbg be (addr f s) (addr f d) (bytes_of_hex h))
        | _ -> failwith ("bad op " ^ op) in
      Printf.printf "r %s\n" r) ops)
