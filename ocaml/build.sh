#!/bin/sh
# usage: build.sh <model-basename> <driver-basename>
#   e.g. build.sh asm_model drv_asm  -> ocaml/bin/drv_asm
# The driver source is: open <Model> ; common.inc.ml ; drv_<x>.ml  (textual concatenation,
# because every extracted file defines its own positive/z types).
set -e
cd "$(dirname "$0")"
M="$1"; D="$2"
mkdir -p build/$D bin
cp gen/$M.ml gen/$M.mli build/$D/
MOD=$(echo "$M" | sed 's/^\(.\)/\U\1/')
{ echo "open $MOD"; echo '# 1 "common.inc.ml"'; cat common.inc.ml; echo "# 1 \"$D.ml\""; cat $D.ml; } > build/$D/main_$D.ml
cd build/$D
ocamlfind ocamlopt -O2 -w -a -package str $M.mli $M.ml main_$D.ml -o ../../bin/$D 2>/dev/null || \
ocamlfind ocamlopt -w -a -package str $M.mli $M.ml main_$D.ml -o ../../bin/$D
