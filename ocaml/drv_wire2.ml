(* model side of the streams `wire2-<fmt>-emit` / `wire2-<fmt>-parse` (formats: see [dispatch]
   at the end; case/observation format: harness/src/bin/h_wire2.rs and wire2/fmt_<x>.rs).
   A case is `case <id> fmt=<fmt>` followed by ops
     emit  buf=<hex> <repr fields k=v ...>      ->  `ret <bytes|PANIC> | <parse of the result>`
     parse bytes=<hex> <context k=v ...>         ->  `chk <ok|err|PANIC> [acc ...] parse <...>` *)

let kvs (op : string) : (string * string) list =
  List.filter_map (fun w ->
    match String.index_opt w '=' with
    | Some i -> Some (String.sub w 0 i, String.sub w (i + 1) (String.length w - i - 1))
    | None -> None) (words op)

let get kv k = try List.assoc k kv with Not_found -> failwith ("missing field " ^ k)
let geti kv k = zs (get kv k)
let getb kv k = bytes_of_hex (get kv k)
let getbool kv k = (try List.assoc k kv with Not_found -> "0") = "1"
let geto kv k = try Some (List.assoc k kv) with Not_found -> None

(* byte strings: hex up to 24 octets, otherwise #len:hash  (h = h*31 + b mod 2^30, from 7) *)
let show_bytes (l : z list) : string =
  let n = List.length l in
  if n <= 24 then hex_of_bytes l
  else
    let h = List.fold_left (fun h b -> (h * 31 + (int_of_z b land 255)) land 0x3fffffff) 7 l in
    Printf.sprintf "#%d:%x" n h

let show_o (f : 'a -> string) (x : 'a outcome) : string =
  match x with Ok a -> f a | Err _ -> "Err" | Panic -> "PANIC"
let oz = show_o sz
let ob = show_o show_bytes
let obool = show_o (fun b -> if b then "1" else "0")
let ohex = show_o hex_of_bytes
let chk (x : unit outcome) : string = match x with Ok _ -> "ok" | Err _ -> "err" | Panic -> "PANIC"
let is_ok x = match x with Ok _ -> true | _ -> false
let b01 b = if b then "1" else "0"

(* u64 values (IGMP max_resp_time in µs) do not fit OCaml's 63-bit int: decimal string <-> z *)
let z_of_dec (s : string) : z =
  (* positive decimal -> z by repeated doubling on a digit array *)
  let digits = Array.init (String.length s) (fun i -> Char.code s.[i] - 48) in
  let n = Array.length digits in
  let is_zero () = Array.for_all (fun d -> d = 0) digits in
  let div2 () = let c = ref 0 in
    for i = 0 to n - 1 do let v = !c * 10 + digits.(i) in digits.(i) <- v / 2; c := v mod 2 done; !c in
  let rec bits () = if is_zero () then [] else let b = div2 () in b :: bits () in
  let bl = bits () in
  let rec pos = function
    | [] -> failwith "z_of_dec"
    | [1] -> XH
    | b :: tl -> if b = 1 then XI (pos tl) else XO (pos tl) in
  if bl = [] then Z0 else Zpos (pos bl)

let dec_of_z (x : z) : string =
  let rec bits p = match p with XH -> [1] | XO q -> 0 :: bits q | XI q -> 1 :: bits q in
  match x with
  | Z0 -> "0"
  | Zneg _ -> "-?"
  | Zpos p ->
      let bl = List.rev (bits p) in   (* most significant first *)
      let digits = ref [0] in         (* little-endian decimal digits *)
      List.iter (fun b ->
        let c = ref b in
        digits := List.map (fun d -> let v = d * 2 + !c in c := v / 10; v mod 10) !digits;
        if !c > 0 then digits := !digits @ [!c]) bl;
      String.concat "" (List.rev_map string_of_int !digits)

(* ---------------- IGMP ---------------- *)
let igmp_show r = match r with
  | IgmpQuery (d, g, v) -> Printf.sprintf "Ok kind=query mrt=%s group=%s ver=%s" (dec_of_z d) (hex_of_bytes g) (match v with IgmpV1 -> "1" | IgmpV2 -> "2")
  | IgmpReport (g, v) -> Printf.sprintf "Ok kind=report group=%s ver=%s" (hex_of_bytes g) (match v with IgmpV1 -> "1" | IgmpV2 -> "2")
  | IgmpLeave g -> Printf.sprintf "Ok kind=leave group=%s" (hex_of_bytes g)
let igmp_repr kv =
  let g = getb kv "group" in
  let v = if geto kv "ver" = Some "1" then IgmpV1 else IgmpV2 in
  match get kv "kind" with
  | "query" -> IgmpQuery (z_of_dec (get kv "mrt"), g, v)
  | "report" -> IgmpReport (g, v)
  | _ -> IgmpLeave g
let igmp_emit_op kv =
  let r = igmp_repr kv in
  let res = igmp_emit wb_plain_fill r (getb kv "buf") in
  Printf.sprintf "ret %s | %s | blen=%s" (ob res)
    (match res with Ok bs -> show_o igmp_show (igmp_parse bs) | _ -> "-") (sz (igmp_buffer_len r))
let igmp_parse_op kv =
  let bs = getb kv "bytes" in
  let c = igmp_check_len bs in
  Printf.sprintf "chk %s%s parse %s" (chk c)
    (if is_ok c then Printf.sprintf " acc type=%s code=%s ck=%s group=%s vck=%s"
       (oz (igmp_msg_type bs)) (oz (igmp_max_resp_code bs)) (oz (igmp_checksum bs))
       (ohex (igmp_group_addr bs)) (obool (igmp_verify_checksum wb_plain_ok bs))
     else "")
    (show_o igmp_show (igmp_parse bs))

(* ---------------- IPv6 Fragment header ---------------- *)
let v6frag_show r = Printf.sprintf "Ok off=%s more=%s ident=%s" (sz r.v6frag_offset) (b01 r.v6frag_more) (sz r.v6frag_ident)
let v6frag_emit_op kv =
  let r = { v6frag_offset = geti kv "off"; v6frag_more = getbool kv "more"; v6frag_ident = geti kv "ident" } in
  let res = v6frag_emit r (getb kv "buf") in
  Printf.sprintf "ret %s | %s | blen=%s" (ob res)
    (match res with Ok bs -> show_o v6frag_show (v6frag_parse bs) | _ -> "-") (sz (v6frag_buffer_len r))
let v6frag_parse_op kv =
  let bs = getb kv "bytes" in
  let c = v6frag_check_len bs in
  Printf.sprintf "chk %s%s parse %s" (chk c)
    (if is_ok c then Printf.sprintf " acc off=%s more=%s ident=%s"
       (oz (v6frag_frag_offset bs)) (obool (v6frag_more_frags bs)) (oz (v6frag_ident_ bs))
     else "")
    (show_o v6frag_show (v6frag_parse bs))

(* ---------------- IPv6 extension header ---------------- *)
let v6ext_show r = Printf.sprintf "Ok nxt=%s len=%s data=%s" (sz r.v6ext_nxt) (sz r.v6ext_length) (show_bytes r.v6ext_data)
let v6ext_emit_op kv =
  let r = { v6ext_nxt = geti kv "nxt"; v6ext_length = geti kv "len"; v6ext_data = getb kv "data" } in
  let full = getbool kv "full" in
  let res = if full then v6ext_emit_full r (getb kv "buf") else v6ext_emit r (getb kv "buf") in
  Printf.sprintf "ret %s | %s | blen=%s" (ob res)
    (match res with
     | Ok bs -> show_o v6ext_show (v6ext_parse (if full then bs else bs @ r.v6ext_data))
     | _ -> "-") (sz (v6ext_buffer_len r))
let v6ext_parse_op kv =
  let bs = getb kv "bytes" in
  let c = v6ext_check_len bs in
  Printf.sprintf "chk %s%s parse %s" (chk c)
    (if is_ok c then Printf.sprintf " acc nxt=%s len=%s payload=%s"
       (oz (v6ext_next_header bs)) (oz (v6ext_header_len bs)) (ob (v6ext_payload bs))
     else "")
    (show_o v6ext_show (v6ext_parse bs))

(* ---------------- MLD ---------------- *)
let icmp6_proto = z_of_int 58
let mld_show r = match r with
  | MldQuery (c, a, s, q, qq, n, d) -> Printf.sprintf "Ok kind=query mrc=%s addr=%s s=%s qrv=%s qqic=%s nsrc=%s data=%s"
      (sz c) (hex_of_bytes a) (b01 s) (sz q) (sz qq) (sz n) (show_bytes d)
  | MldReport (n, d) -> Printf.sprintf "Ok kind=report nr=%s data=%s" (sz n) (show_bytes d)
  | MldReportRecords rs -> Printf.sprintf "Ok kind=records n=%d" (List.length rs)
let mldrec_show r = Printf.sprintf "Ok kind=rec type=%s aux=%s nsrc=%s addr=%s payload=%s"
  (sz r.mldrec_type) (sz r.mldrec_aux_len) (sz r.mldrec_num_srcs) (hex_of_bytes r.mldrec_addr) (show_bytes r.mldrec_payload)
let mld_repr kv = match get kv "kind" with
  | "query" -> MldQuery (geti kv "mrc", getb kv "addr", getbool kv "s", geti kv "qrv", geti kv "qqic", geti kv "nsrc", getb kv "data")
  | "report" -> MldReport (geti kv "nr", getb kv "data")
  | _ ->
    let s = get kv "recs" in
    MldReportRecords (if s = "-" then [] else
      List.map (fun item -> match String.split_on_char ':' item with
        | [t; a; n; addr] -> { mldrec_type = zs t; mldrec_aux_len = zs a; mldrec_num_srcs = zs n;
                               mldrec_addr = bytes_of_hex addr; mldrec_payload = [] }
        | _ -> failwith "bad record") (String.split_on_char ',' s))
let mld_is_mine bs = match bs with b :: _ -> (int_of_z b = 0x82 || int_of_z b = 0x8f) | [] -> false
let mld_icmp kv bs =
  if not (mld_is_mine bs) then "-" else
  let src = getb kv "src" and dst = getb kv "dst" in
  show_o mld_show (mld_icmp_parse (wb_pseudo_ok src dst icmp6_proto) (getbool kv "rx") bs)
let mld_emit_op kv =
  if get kv "kind" = "rec" then begin
    let r = { mldrec_type = geti kv "type"; mldrec_aux_len = geti kv "aux"; mldrec_num_srcs = geti kv "nsrc";
              mldrec_addr = getb kv "addr"; mldrec_payload = getb kv "payload" } in
    match mldrec_emit r (getb kv "buf") with
    | Ok bs -> Printf.sprintf "ret %s | %s | blen=%s" (show_bytes bs) (show_o mldrec_show (mldrec_parse (bs @ r.mldrec_payload))) (sz (mldrec_buffer_len r))
    | _ -> Printf.sprintf "ret PANIC | - | blen=%s" (sz (mldrec_buffer_len r))
  end else begin
    let r = mld_repr kv in
    let src = getb kv "src" and dst = getb kv "dst" in
    let raw = mld_emit r (getb kv "buf") in
    let res = mld_icmp_emit (wb_pseudo_fill src dst icmp6_proto) (getbool kv "tx") r (getb kv "buf") in
    match res with
    | Ok bs -> Printf.sprintf "raw %s ret %s | %s | icmp %s | blen=%s" (ob raw) (show_bytes bs)
                 (show_o mld_show (mld_parse bs)) (mld_icmp kv bs) (sz (mld_buffer_len r))
    | _ -> Printf.sprintf "raw %s ret PANIC | - | blen=%s" (ob raw) (sz (mld_buffer_len r))
  end
let mld_parse_op kv =
  let bs = getb kv "bytes" in
  if get kv "what" = "rec" then begin
    let c = mldrec_check_len bs in
    Printf.sprintf "chk %s%s parse %s" (chk c)
      (if is_ok c then Printf.sprintf " acc type=%s aux=%s nsrc=%s addr=%s payload=%s"
         (oz (mldrec_record_type bs)) (oz (mldrec_aux_data_len bs)) (oz (mldrec_num_srcs_ bs))
         (ohex (mldrec_mcast_addr bs)) (ob (mldrec_payload_ bs))
       else "") (show_o mldrec_show (mldrec_parse bs))
  end else begin
    let c = icmp6h_check_len bs in
    Printf.sprintf "chk %s%s parse %s | icmp %s" (chk c)
      (if is_ok c && mld_is_mine bs then
         (if int_of_z (List.hd bs) = 0x82 then
            Printf.sprintf " acc mrc=%s addr=%s s=%s qrv=%s qqic=%s nsrc=%s payload=%s"
              (oz (mld_max_resp_code bs)) (ohex (mld_mcast_addr bs)) (obool (mld_s_flag bs)) (oz (mld_qrv bs))
              (oz (mld_qqic bs)) (oz (mld_num_srcs bs)) (ob (icmp6h_payload bs))
          else Printf.sprintf " acc nr=%s payload=%s" (oz (mld_nr_mcast_addr_rcrds bs)) (ob (icmp6h_payload bs)))
       else "")
      (show_o mld_show (mld_parse bs)) (mld_icmp kv bs)
  end

(* ---------------- dispatch ---------------- *)
let dispatch : (string * ((string * string) list -> string) * ((string * string) list -> string)) list = [
  ("igmp", igmp_emit_op, igmp_parse_op);
  ("v6frag", v6frag_emit_op, v6frag_parse_op);
  ("v6ext", v6ext_emit_op, v6ext_parse_op);
  ("mld", mld_emit_op, mld_parse_op);
]

let () =
  iter_cases (fun id cfg ops ->
    Printf.printf "case %s\n" id;
    let fmt = cfg_get cfg "fmt" "?" in
    let (_, fe, fp) =
      try List.find (fun (n, _, _) -> n = fmt) dispatch
      with Not_found -> failwith ("drv_wire2: unknown format " ^ fmt) in
    List.iter (fun op ->
      let kv = kvs op in
      match words op with
      | "emit" :: _ -> print_endline (fe kv)
      | "parse" :: _ -> print_endline (fp kv)
      | _ -> failwith ("bad op " ^ op)) ops)
