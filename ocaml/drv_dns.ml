(* model side of streams `dns` and `dnswire` (format: harness/src/bin/h_dns.rs).
   `drv_dns` = stream dns, `drv_dns wire` = stream dnswire. *)
let rec nat_of_int (n : int) : nat = if n <= 0 then O else S (nat_of_int (n - 1))
let rec int_of_nat (n : nat) : int = match n with O -> 0 | S m -> 1 + int_of_nat m

let kv (ws : string list) (k : string) : string =
  let p = k ^ "=" in
  let pl = String.length p in
  let rec go = function
    | [] -> failwith ("missing " ^ k)
    | w :: r -> if String.length w >= pl && String.sub w 0 pl = p then String.sub w pl (String.length w - pl) else go r in
  go ws

(* the driver's own (txid, port) of the k-th query op; the implementation's are random *)
let txid_of k = (0x1111 * (k + 1)) land 0xffff
let port_of k = 10000 + 100 * k

let port_plus p pd =
  let v = p + pd in
  if v >= 1 && v <= 65535 then v else max 1 (min 65535 (p - pd))

let xor_id (d : z list) (txid : int) : z list =
  match d with
  | a :: b :: r -> z_of_int (int_of_z a lxor (txid lsr 8)) :: z_of_int (int_of_z b lxor (txid land 255)) :: r
  | _ -> d

let run_dns () =
  iter_cases (fun id cfg ops ->
    Printf.printf "case %s\n" id;
    let servers = match cfg_get cfg "servers" "-" with
      | "-" | "" -> []
      | s -> List.map bytes_of_hex (String.split_on_char ',' s) in
    let slots = int_of_string (cfg_get cfg "slots" "1") in
    let owned = cfg_get cfg "owned" "0" <> "0" in
    let v4 = cfg_get cfg "v4" "1" <> "0" in
    let c = dns_cfg_default v4 in
    Printf.printf "cfg maxname=%s maxres=%s maxsrv=%s\n" (sz c.c_max_name) (sz c.c_max_results) (sz c.c_max_servers);
    let st = ref (dns_new c servers (nat_of_int slots) owned) in
    let now = ref 0 in
    let nq = ref 0 in
    let handles : (int, nat) Hashtbl.t = Hashtbl.create 8 in
    let started : (int, unit) Hashtbl.t = Hashtbl.create 8 in
    let pollat () = match dns_poll_at !st with
      | Some t -> Printf.printf "pollat %s\n" (sz t)
      | None -> print_string "pollat none\n" in
    List.iter (fun op ->
      let ws = words op in
      (match ws with
       | "query" :: _ | "queryraw" :: _ ->
           let k = !nq in
           incr nq;
           let ev = (match ws with
             | ["query"; n; t] -> EvQuery (bytes_of_hex n, zs t, z_of_int (txid_of k), z_of_int (port_of k))
             | ["queryraw"; n; t; m] -> EvQueryRaw (bytes_of_hex n, zs t, m = "1", z_of_int (txid_of k), z_of_int (port_of k))
             | _ -> failwith "bad query") in
           let (s', o) = dns_step c !st ev in
           st := s';
           (match o with
            | ObStart (Ok h) -> Hashtbl.replace handles k h; Hashtbl.replace started k (); print_string "start ok\n"
            | ObStart (Err e) -> Printf.printf "start E%s\n" (sz e)
            | _ -> print_string "start PANIC\n")
       | ["get"; ks] ->
           let k = int_of_string ks in
           (match Hashtbl.find_opt handles k with
            | None -> print_string "get nohandle\n"
            | Some h ->
                let (s', o) = dns_step c !st (EvGet h) in
                st := s';
                (match o with
                 | ObGet (Ok addrs) -> Printf.printf "get ok %s\n" (String.concat "," (List.map hex_of_bytes addrs))
                 | ObGet (Err e) -> print_string (if int_of_z e = 1 then "get pending\n" else "get failed\n")
                 | _ -> print_string "get PANIC\n"))
       | ["cancel"; ks] ->
           let k = int_of_string ks in
           (match Hashtbl.find_opt handles k with
            | None -> print_string "cancel nohandle\n"
            | Some h ->
                let (s', o) = dns_step c !st (EvCancel h) in
                st := s';
                (match o with
                 | ObCancel (Ok _) -> print_string "cancel ok\n"
                 | _ -> print_string "cancel PANIC\n"))
       | [("bpoll" | "bppoll") as w; vs] ->
           (* Interface::poll while the device hands out no transmit token: socket_egress calls the socket's
              dispatch once, its emit closure fails (EgressError::Exhausted), the egress loop stops *)
           let v = int_of_string vs in
           let target = if w = "bpoll" then v else
             (match dns_poll_at !st with Some p -> int_of_z p + v | None -> !now + 1_000_000) in
           now := max !now target;
           (match dns_dispatch c !st (z_of_int !now) false with
            | Ok (s', _) -> st := s'; print_string "poll n=0\n"
            | _ -> print_string "bad PANIC\n")
       | [("poll" | "ppoll") as w; vs] ->
           let v = int_of_string vs in
           let target = if w = "poll" then v else
             (match dns_poll_at !st with Some p -> int_of_z p + v | None -> !now + 1_000_000) in
           now := max !now target;
           let hop = dns_tx_hop !st in
           let (s', o) = dns_step c !st (EvPoll (z_of_int !now)) in
           st := s';
           (match o with
            | ObPoll (txs, hang) ->
                List.iter (fun tx ->
                  let pl = tx.tx_payload in
                  let sport = int_of_z tx.tx_src_port in
                  let idv = (match pl with a :: b :: _ -> Some (int_of_z a * 256 + int_of_z b) | _ -> None) in
                  let k = ref None in
                  (match idv with
                   | Some i -> for j = !nq - 1 downto 0 do
                       if Hashtbl.mem started j && txid_of j = i && port_of j = sport then k := Some j done
                   | None -> ());
                  let d = (match !k with Some j -> xor_id pl (txid_of j) | None -> pl) in
                  Printf.printf "tx k=%s dst=%s dport=%s hop=%s dns=%s\n"
                    (match !k with Some j -> string_of_int j | None -> "?")
                    (hex_of_bytes tx.tx_dst_addr) (sz tx.tx_dst_port) (sz hop) (hex_of_bytes d)) txs;
                Printf.printf "poll n=%d%s\n" (List.length txs) (if hang then " HANG" else "")
            | _ -> print_string "bad PANIC\n")
       | ["servers"; l] ->
           let srv = (match l with "-" | "" -> [] | x -> List.map bytes_of_hex (String.split_on_char ',' x)) in
           let (s', _) = dns_step c !st (EvServers srv) in
           st := s';
           print_string "servers\n"
       | ["hop"; v] ->
           let h = if v = "none" then None else Some (zs v) in
           let (s', o) = dns_step c !st (EvHop h) in
           st := s';
           let g = (match dns_hop_limit !st with Some x -> sz x | None -> "none") in
           (match o with
            | ObHop (Ok _) -> Printf.printf "hop ok get=%s\n" g
            | _ -> Printf.printf "hop PANIC get=%s\n" g)
       | "rsp" :: _ ->
           let k = int_of_string (kv ws "k") and pk = int_of_string (kv ws "pk") in
           let pd = int_of_string (kv ws "pd") in
           let src = bytes_of_hex (kv ws "src") in
           let sport = zs (kv ws "sport") in
           let data = bytes_of_hex (kv ws "data") in
           let txid = if Hashtbl.mem started k then txid_of k else 0 in
           let port = if Hashtbl.mem started pk then port_of pk else 4000 in
           let d = xor_id data txid in
           let (s', o) = dns_step c !st (EvRsp (src, sport, z_of_int (port_plus port pd), d)) in
           st := s';
           (match o with
            | ObRsp acc -> Printf.printf "rsp acc=%d\n" (if acc then 1 else 0)
            | _ -> print_string "bad PANIC\n")
       | _ -> failwith ("bad op " ^ op));
      pollat ()) ops)

(* ---- dnswire ---- *)
let names_obs (pkt : z list) (bytes : z list) : string =
  let rec go nm acc = match nm with
    | NmLabel (l, r) -> go r (hex_of_bytes l :: acc)
    | NmEnd -> (List.rev acc, "END")
    | NmErr -> (List.rev acc, "ERR")
    | NmPanic -> ([], "PANIC")
    | NmFuel -> (List.rev acc, "HANG") in
  let (ls, e) = go (wdns_parse_name pkt bytes) [] in
  if e = "PANIC" then "nm PANIC"
  else Printf.sprintf "nm %s%s%s" (String.concat "|" ls) (if ls = [] then "" else " ") e

let rec drop n l = if n <= 0 then l else match l with [] -> [] | _ :: r -> drop (n - 1) r

let run_wire () =
  iter_cases (fun id _cfg ops ->
    Printf.printf "case %s\n" id;
    List.iter (fun op ->
      match words op with
      | ["hdr"; h] ->
          let b = bytes_of_hex h in
          (match wdns_check_len b with
           | Panic -> print_string "h PANIC\n"
           | Err _ -> print_string "h err\n"
           | Ok _ ->
               let g f = match f b with Ok v -> sz v | Err _ -> "E" | Panic -> "PANIC" in
               Printf.printf "h id=%s fl=%s op=%s rc=%s qd=%s an=%s ns=%s ar=%s\n"
                 (g wdns_transaction_id) (g wdns_flags) (g wdns_opcode) (g wdns_rcode) (g wdns_question_count)
                 (g wdns_answer_record_count) (g wdns_authority_record_count) (g wdns_additional_record_count))
      | ["name"; h; o] ->
          let b = bytes_of_hex h in
          print_string (names_obs b (drop (int_of_string o) b)); print_newline ()
      | ["name2"; h; x] ->
          print_string (names_obs (bytes_of_hex h) (bytes_of_hex x)); print_newline ()
      | ["question"; h] ->
          (match wdns_question_parse (bytes_of_hex h) with
           | Panic -> print_string "q PANIC\n"
           | Err e -> print_string (if int_of_z e = 99 then "q HANG\n" else "q err\n")
           | Ok (rest, q) -> Printf.printf "q ok rest=%d name=%s type=%s\n" (List.length rest) (hex_of_bytes q.q_name) (sz q.q_type))
      | ["record"; h] ->
          (match wdns_record_parse (bytes_of_hex h) with
           | Panic -> print_string "r PANIC\n"
           | Err e -> print_string (if int_of_z e = 99 then "r HANG\n" else "r err\n")
           | Ok (rest, r) ->
               let d = (match r.r_data with
                 | RdA a -> "A:" ^ hex_of_bytes a
                 | RdAaaa a -> "AAAA:" ^ hex_of_bytes a
                 | RdCname n -> "CNAME:" ^ hex_of_bytes n
                 | RdOther (t, d) -> Printf.sprintf "OTHER:%s:%s" (sz t) (hex_of_bytes d)) in
               Printf.printf "r ok rest=%d name=%s ttl=%s data=%s\n" (List.length rest) (hex_of_bytes r.r_name) (sz r.r_ttl) d)
      | "emit" :: i :: fl :: opc :: nm :: ty :: bl :: rest ->
          let fill = (match rest with f :: _ -> int_of_string f | [] -> 0) in
          let flags = z_of_int (int_of_string fl land int_of_z wdns_FLAGS_ALL) in
          let repr = { rp_transaction_id = zs i; rp_opcode = zs opc; rp_flags = flags;
                       rp_question = { q_name = bytes_of_hex nm; q_type = zs ty } } in
          let len = int_of_z (wdns_repr_buffer_len repr) in
          let blen = if bl = "auto" then len else int_of_string bl in
          (match wdns_repr_emit repr (List.init blen (fun _ -> z_of_int fill)) with
           | Ok b -> Printf.printf "e len=%d %s\n" len (hex_of_bytes b)
           | _ -> Printf.printf "e len=%d PANIC\n" len)
      | _ -> failwith ("bad wire op " ^ op)) ops)

let () =
  if Array.length Sys.argv > 1 && Sys.argv.(1) = "wire" then run_wire () else run_dns ()
