(* model side of stream `frag4` (see harness/src/bin/h_frag4.rs for the case format) *)
let fnv (l : z list) : int =
  List.fold_left (fun h b -> ((h lxor (int_of_z b land 255)) * 16777619) land 0xffffffff) 2166136261 l

let rec nat_of_int (n : int) : nat = if n <= 0 then O else S (nat_of_int (n - 1))

let run_tx id cfg ops =
  let medium = if cfg_get cfg "medium" "ip" = "eth" then MEth else MIp in
  let ip_mtu = f4_ip_mtu medium (zs (cfg_get cfg "mtu" "1500")) in
  let st = ref (eg_init (zs (cfg_get cfg "fbuf" "1500")) Z0
                  (nat_of_int (int_of_string (cfg_get cfg "socks" "1")))) in
  let idents : (int, int) Hashtbl.t = Hashtbl.create 16 in
  let show ((hw, p) : z * ip4pkt) =
    if p_is_fragment p then begin
      let i = int_of_z p.p_ident in
      let k = match Hashtbl.find_opt idents i with
        | Some k -> k
        | None -> let k = Hashtbl.length idents in Hashtbl.add idents i k; k in
      Printf.printf "tx f%d %s %d %d %08x to=%s\n" k (sz p.p_offset) (if p.p_mf then 1 else 0)
        (List.length p.p_payload) (fnv p.p_payload) (sz hw)
    end else
      Printf.printf "tx nf 0 0 %d %08x to=%s\n" (List.length p.p_payload) (fnv p.p_payload) (sz hw) in
  (* neighbour number nb (default 0) -> link-layer address id nb+1 (0 = EthernetAddress::default()) *)
  let hw_of = function [] -> z_of_int 1 | nb :: _ -> z_of_int (int_of_string nb + 1) in
  List.iter (fun op ->
    let o = match words op with
      | "send" :: i :: h :: nb -> ESend (nat_of_int (int_of_string i), (hw_of nb, bytes_of_hex h))
      | "echo" :: reply :: _ :: nb -> ERecv (hw_of nb, bytes_of_hex reply)
      | ["poll"; b] -> let b = int_of_string b in EPoll (if b < 0 then None else Some (z_of_int b))
      | _ -> failwith ("bad op " ^ op) in
    let (st', out) = eg_step ip_mtu !st o in
    st := st';
    List.iter show out;
    (match o with EPoll _ -> Printf.printf "p\n" | _ -> ())) ops

let run_rx id cfg ops =
  let n = zs (cfg_get cfg "segs" "4") in
  let timeout = zs (cfg_get cfg "timeout" "60000") in
  let st = ref (pas_new (nat_of_int (int_of_string (cfg_get cfg "slots" "1")))) in
  List.iter (fun op ->
    match words op with
    | ["frag"; t; k; off; mf; h] ->
        let ki = int_of_string k in
        let f = { fi_key = (((z_of_int ki, Z0), Z0), Z0);
                  fi_offset = z_of_int (8 * (int_of_string off / 8));
                  fi_mf = (mf = "1"); fi_payload = bytes_of_hex h } in
        let (st', r) = rs_poll n timeout (zs t) !st f in
        st := st';
        (match r with
         | Some d -> Printf.printf "rx %d %d %08x\n" (ki land (lnot 1)) (List.length d) (fnv d)
         | None -> Printf.printf "rx -\n")
    | _ -> failwith ("bad op " ^ op)) ops

let () =
  iter_cases (fun id cfg ops ->
    Printf.printf "case %s\n" id;
    match cfg_get cfg "k" "tx" with
    | "tx" -> run_tx id cfg ops
    | "rx" -> run_rx id cfg ops
    | k -> failwith ("bad kind " ^ k))
