(* model side of stream `neigh` (see harness/src/bin/h_neigh.rs for the format).
   Addresses are hexadecimal: IP `4.<hex>` / `6.<hex>`, CIDR `<ip>/<len>`, hardware `<hex>`;
   times are milliseconds in the case text, microseconds in the model. *)

(* arbitrary-size hex <-> extracted z (128-bit IPv6 addresses do not fit an OCaml int) *)
let z_of_hex (s : string) : z =
  let p = ref None in
  String.iter (fun ch ->
    let d = int_of_string ("0x" ^ String.make 1 ch) in
    for b = 3 downto 0 do
      let bit = (d lsr b) land 1 = 1 in
      p := (match !p with
            | None -> if bit then Some XH else None
            | Some q -> Some (if bit then XI q else XO q))
    done) s;
  match !p with None -> Z0 | Some q -> Zpos q

let hex_of_z (x : z) : string =
  match x with
  | Z0 -> "0"
  | Zneg _ -> "neg"
  | Zpos p ->
      let rec bits p acc = match p with
        | XH -> 1 :: acc
        | XO q -> bits q (0 :: acc)
        | XI q -> bits q (1 :: acc) in
      let bl = bits p [] in                       (* most significant first *)
      let pad = (4 - (List.length bl) mod 4) mod 4 in
      let bl = List.init pad (fun _ -> 0) @ bl in
      let buf = Buffer.create 32 in
      let rec go = function
        | a :: b :: c :: d :: r ->
            Buffer.add_string buf (Printf.sprintf "%x" (a * 8 + b * 4 + c * 2 + d)); go r
        | _ -> () in
      go bl; Buffer.contents buf

let ip_of (s : string) : ipaddr =
  let v = z_of_hex (String.sub s 2 (String.length s - 2)) in
  if s.[0] = '4' then V4 v else V6 v

let ip_raw (s : string) : z = match ip_of s with V4 v -> v | V6 v -> v

let show_ip (a : ipaddr) : string =
  match a with V4 v -> "4." ^ hex_of_z v | V6 v -> "6." ^ hex_of_z v

let cidr_of (s : string) : cidr =
  match String.split_on_char '/' s with
  | [a; l] -> { cidr_addr = ip_of a; cidr_plen = zs l }
  | _ -> failwith ("bad cidr " ^ s)

let ms (s : string) : z = z_of_int (int_of_string s * 1000)

let rec nat_of_int (n : int) : nat = if n <= 0 then O else S (nat_of_int (n - 1))

let hwopt (s : string) : z option = if s = "-" then None else Some (z_of_hex s)

(* a trailing `bad4` / `badi` marks a frame whose ICMP / IPv4-header checksum is corrupted; it only
   matters when the interface verifies receive checksums (case config ck=both, the default) *)
let parse_ev (verify : bool) (op : string) : sim_ev =
  let ws = words op in
  let last = List.nth ws (List.length ws - 1) in
  let bad = if last = "bad4" || last = "badi" then last else "" in
  let ws = if bad <> "" then List.filteri (fun k _ -> k < List.length ws - 1) ws else ws in
  let bad = if verify then bad else "" in
  let pl (p : v6payload) = if bad = "bad4" then P6Bad else p in
  match ws with
  | "addrs" :: l -> SAddrs (List.map cidr_of l)
  | ["send"; s; d; tag] -> SSend (nat_of_int (int_of_string s), ip_of d, zs tag)
  | ["arp"; edst; o; sha; spa; tpa] ->
      SRx (RxArp (z_of_hex edst, zs o, z_of_hex sha, ip_raw spa, ip_raw tpa))
  | ["ip4"; edst; esrc; src; dst] ->
      if bad = "badi" then SRx (RxJunk (z_of_hex edst))
      else if bad = "bad4" then SRx (RxV4Bad (z_of_hex edst, z_of_hex esrc, ip_raw src, ip_raw dst))
      else SRx (RxV4Echo (z_of_hex edst, z_of_hex esrc, ip_raw src, ip_raw dst))
  | ["sethw"; h] -> SSetHw (z_of_hex h)
  | ["txb"; b] -> STxb (if b = "-" then None else Some (zs b))
  | ["ip6"; edst; esrc; src; dst; hop; "echo"] ->
      SRx (RxV6 (z_of_hex edst, z_of_hex esrc, ip_raw src, ip_raw dst, zs hop, pl P6Echo))
  | ["ip6"; edst; esrc; src; dst; hop; "na"; tgt; ll; ovr] ->
      SRx (RxV6 (z_of_hex edst, z_of_hex esrc, ip_raw src, ip_raw dst, zs hop,
                 pl (P6Na (ip_raw tgt, hwopt ll, ovr = "1"))))
  | ["ip6"; edst; esrc; src; dst; hop; "ns"; tgt; ll] ->
      SRx (RxV6 (z_of_hex edst, z_of_hex esrc, ip_raw src, ip_raw dst, zs hop,
                 pl (P6Ns (ip_raw tgt, hwopt ll))))
  | ["r154"; panok; ldst; lsrc; src; dst; hop; "echo"] ->
      SRx (Rx154 (panok = "1", z_of_hex ldst, z_of_hex lsrc, ip_raw src, ip_raw dst, zs hop, pl P6Echo))
  | ["r154"; panok; ldst; lsrc; src; dst; hop; "na"; tgt; ll; ovr] ->
      SRx (Rx154 (panok = "1", z_of_hex ldst, z_of_hex lsrc, ip_raw src, ip_raw dst, zs hop,
                  pl (P6Na (ip_raw tgt, hwopt ll, ovr = "1"))))
  | ["r154"; panok; ldst; lsrc; src; dst; hop; "ns"; tgt; ll] ->
      SRx (Rx154 (panok = "1", z_of_hex ldst, z_of_hex lsrc, ip_raw src, ip_raw dst, zs hop,
                  pl (P6Ns (ip_raw tgt, hwopt ll))))
  | ["rtdef4"; g] -> SRtDef4 (ip_raw g)
  | ["rtdef6"; g] -> SRtDef6 (ip_raw g)
  | ["rtrmdef4"] -> SRtRmDef4
  | ["rtrmdef6"] -> SRtRmDef6
  | ["rtpush"; c; via; e] ->
      SRtPush { rt_cidr = cidr_of c; rt_via = ip_of via;
                rt_expires = (if e = "-" then None else Some (ms e)) }
  | ["rtrm"; i] -> SRtRm (nat_of_int (int_of_string i))
  | ["rtclear"] -> SRtClear
  | ["poll"; t] -> SPoll (ms t)
  | _ -> failwith ("bad op " ^ op)

let show_frame (f : frame) : string =
  match f with
  | FArpReq (h, t) -> Printf.sprintf "tx arpreq %s 4.%s" (hex_of_z h) (hex_of_z t)
  | FArpRep (h, t) -> Printf.sprintf "tx arprep %s 4.%s" (hex_of_z h) (hex_of_z t)
  | FNs (h, t) -> Printf.sprintf "tx ns %s 6.%s" (hex_of_z h) (hex_of_z t)
  | FIp (h, d, tag) -> Printf.sprintf "tx ip %s %s %s" (hex_of_z h) (show_ip d) (sz tag)

let () =
  iter_cases (fun id cfg ops ->
    Printf.printf "case %s\n" id;
    let ether = cfg_get cfg "med" "eth" = "eth" in
    let kinds = List.map (fun c -> match c with 'u' -> z_of_int 0 | 'i' -> z_of_int 1 | _ -> z_of_int 2)
        (List.of_seq (String.to_seq (cfg_get cfg "socks" "u"))) in
    let st = ref (sim_init ether (z_of_hex (cfg_get cfg "hw" "020000000001"))
                    (zs (cfg_get cfg "cap" "8")) (zs (cfg_get cfg "rcap" "2"))
                    (zs (cfg_get cfg "qcap" "4")) kinds) in
    let dead = ref false in
    let verify = cfg_get cfg "ck" "both" = "both" in
    List.iter (fun op ->
      if not !dead then begin
        let ev = parse_ev verify op in
        match sim_step !st ev with
        | Ok ((st', frames), r) ->
            st := st';
            (match ev with
             | SAddrs _ -> print_string "ok\n"
             | SRx _ -> print_string "rx\n"
             | SPoll now ->
                 (* every frame of a poll carries the interface's current hardware address as sender *)
                 let from = hex_of_z st'.sim_if.if_hw in
                 List.iter (fun f -> Printf.printf "%s from=%s\n" (show_frame f) from) frames;
                 Printf.printf "q%s\n" (String.concat "" (List.map (fun x -> " " ^ sz x) (sim_qlens st')));
                 (match sim_poll_at st' now with
                  | None -> print_string "pollat none\n"
                  | Some t -> Printf.printf "pollat %d\n" (int_of_z t / 1000))
             | _ -> Printf.printf "ret %s\n" (sz r))
        | _ -> print_string "PANIC\n"; dead := true
      end) ops)
