(* model side of stream `ingress` (format: harness/src/bin/h_ingress.rs) *)

(* big hexadecimal <-> z (addresses do not fit an OCaml int) *)
let hexval c =
  match c with
  | '0' .. '9' -> Char.code c - 48
  | 'a' .. 'f' -> Char.code c - 87
  | 'A' .. 'F' -> Char.code c - 55
  | _ -> failwith "hex digit"

let z_of_hex (s : string) : z =
  let bits = ref [] in
  String.iter (fun c -> let d = hexval c in
    for i = 3 downto 0 do bits := ((d lsr i) land 1 = 1) :: !bits done) s;
  let rec skip = function false :: t -> skip t | l -> l in
  match skip (List.rev !bits) with
  | [] -> Z0
  | _ :: t -> Zpos (List.fold_left (fun p b -> if b then XI p else XO p) XH t)

let hex_of_z (width : int) (x : z) : string =
  let rec bits p acc = match p with
    | XH -> true :: acc
    | XO q -> bits q (false :: acc)
    | XI q -> bits q (true :: acc) in
  let b = match x with Z0 -> [] | Zpos p -> bits p [] | Zneg _ -> failwith "negative address" in
  let n = width * 4 in
  let len = List.length b in
  if len > n then failwith "address too wide";
  let arr = Array.make n false in
  List.iteri (fun i v -> arr.(n - len + i) <- v) b;
  String.init width (fun i ->
    let d = ref 0 in
    for k = 0 to 3 do d := (!d lsl 1) lor (if arr.(4 * i + k) then 1 else 0) done;
    "0123456789abcdef".[!d])

let rec int_of_nat (n : nat) : int = match n with O -> 0 | S m -> 1 + int_of_nat m

let ip_p (s : string) : ipaddr = if String.length s = 8 then V4 (z_of_hex s) else V6 (z_of_hex s)
let oip_p (s : string) : ipaddr option = if s = "-" then None else Some (ip_p s)
let ip_s (a : ipaddr) : string = match a with V4 x -> hex_of_z 8 x | V6 x -> hex_of_z 32 x

let ll_p (s : string) : hwaddr =
  match String.length s with
  | 1 -> HwAbsent
  | 12 -> HwEth (z_of_hex s)
  | 4 -> HwShort (z_of_hex s)
  | 16 -> HwExt (z_of_hex s)
  | _ -> failwith ("bad ll " ^ s)
let ll_s (h : hwaddr) : string =
  match h with
  | HwIp | HwAbsent -> "-"
  | HwEth a -> hex_of_z 12 a
  | HwShort a -> hex_of_z 4 a
  | HwExt a -> hex_of_z 16 a

let oz_p (s : string) : z option = if s = "-" then None else Some (zs s)

let ctl_p = function
  | "none" -> CtlNone | "psh" -> CtlPsh | "syn" -> CtlSyn | "fin" -> CtlFin | "rst" -> CtlRst
  | s -> failwith ("ctl " ^ s)

let upper_p (t : string list) : upper =
  match t with
  | ["tcp"; sp; dp; ctl; ack; len] -> UTcp (zs sp, zs dp, ctl_p ctl, ack = "1", zs len)
  | ["udp"; sp; dp; len] -> UUdp (zs sp, zs dp, zs len)
  | ["echoreq"; id; len] -> UIcmp (IEchoReq (zs id, zs len))
  | ["echorep"; id; len] -> UIcmp (IEchoRep (zs id, zs len))
  | ["icmperr"; ty; q; len] ->
      let q' =
        if String.length q > 4 && String.sub q 0 4 = "udp:" then QUdp (zs (String.sub q 4 (String.length q - 4)))
        else if String.length q > 4 && String.sub q 0 4 = "tcp:" then QTcp (zs (String.sub q 4 (String.length q - 4)))
        else QOther in
      UIcmp (IErr (zs ty, q', zs len))
  | ["ns"; tg; ll; hl] -> UIcmp (INeighSol (z_of_hex tg, (if ll = "-" then None else Some (ll_p ll)), zs hl))
  | ["na"; tg; ll; hl] -> UIcmp (INeighAdv (z_of_hex tg, (if ll = "-" then None else Some (ll_p ll)), zs hl))
  | ["igmp"] -> UIgmp
  | ["other"; p; len] -> UOther (zs p, zs len)
  | _ -> failwith "upper"

(* option types of a hop-by-hop options area given as bytes *)
let hbh_p (s : string) : hbh option =
  if s = "-" then None
  else begin
    let b = Array.of_list (List.map int_of_z (bytes_of_hex s)) in
    let n = Array.length b in
    let rec go i acc =
      if i >= n then List.rev acc
      else if b.(i) = 0 then go (i + 1) (z_of_int 0 :: acc)
      else go (i + 2 + b.(i + 1)) (z_of_int b.(i) :: acc) in
    Some { hbh_opts = go 0 []; hbh_len = z_of_int (n + 2) }
  end

let kind_s = function
  | KRst -> "rst" | KEchoReply -> "echorep" | KPortUnreach -> "unreach-port"
  | KProtoUnreach -> "unreach-proto" | KParamNxt -> "param-nxt" | KParamOpt -> "param-opt"
  | KUdp -> "udp" | KSyn -> "syn" | KNeighSol -> "ns" | KNeighAdv -> "na"

let print_emitted (l : emitted list) =
  List.iter (fun e ->
    match e with
    | EmIp (k, src, dst, ll, iplen, frag) ->
        Printf.printf "tx %s %s %s %s %s %d\n" (kind_s k) (ip_s src) (ip_s dst) (ll_s ll)
          (match k with KSyn -> "0" | _ -> sz iplen) (if frag then 1 else 0)
    | EmArpReq (s, t) ->
        Printf.printf "tx arpreq %s %s ffffffffffff 0 0\n" (hex_of_z 8 s) (hex_of_z 8 t)) l

let () =
  iter_cases (fun id cfg ops ->
    Printf.printf "case %s\n" id;
    let med = match cfg_get cfg "med" "ip" with "ip" -> MIp | "eth" -> MEth | "154" -> M154 | _ -> failwith "med" in
    let anyip = cfg_get cfg "anyip" "0" = "1" in
    let mtu = zs (cfg_get cfg "mtu" "1500") in
    let hw = ref (match med with MIp -> HwIp | _ -> HwAbsent) in
    let pan = ref None in
    let addrs = ref [] and groups = ref [] and routes = ref [] and neigh = ref [] and socks = ref [] in
    let ev = ref None in
    List.iter (fun op ->
      match words op with
      | ["hw"; l] -> hw := ll_p l
      | ["pan"; p] -> pan := oz_p p
      | ["addr"; a; pl] -> addrs := { c_addr = ip_p a; c_plen = zs pl } :: !addrs
      | ["group"; a] -> groups := ip_p a :: !groups
      | ["route"; a; pl; gw] -> routes := ({ c_addr = ip_p a; c_plen = zs pl }, ip_p gw) :: !routes
      | ["neigh"; a; l] -> neigh := (ip_p a, ll_p l) :: !neigh
      | "sock" :: rest ->
          let s = match rest with
            | ["tcpl"; a; p] -> STcpListen (oip_p a, zs p)
            | ["tcpc"; la; lp; ra; rp] -> STcpConn (ip_p la, zs lp, ip_p ra, zs rp)
            | ["tcpx"] -> STcpClosed
            | ["udp"; a; p] -> SUdp (oip_p a, zs p)
            | ["icmp"; "-"] -> SIcmp IbUnspec
            | ["icmp"; "ident"; i] -> SIcmp (IbIdent (zs i))
            | ["icmp"; "udp"; a; p] -> SIcmp (IbUdp (oip_p a, zs p))
            | ["icmp"; "tcp"; a; p] -> SIcmp (IbTcp (oip_p a, zs p))
            | ["raw"; v; p] -> SRaw (oz_p v, oz_p p)
            | ["dns"; l] -> SDns (List.map ip_p (String.split_on_char ',' l))
            | _ -> failwith ("sock " ^ op) in
          socks := s :: !socks
      | "rx" :: _ | "tx" :: _ -> ev := Some (words op)
      | _ -> failwith ("bad op " ^ op)) ops;
    let ifc = {
      if_medium = med; if_hw = !hw; if_pan = !pan;
      if_addrs = List.rev !addrs; if_groups = List.rev !groups; if_any_ip = anyip;
      if_routes = List.rev !routes; if_neigh = List.rev !neigh; if_neigh_silent = false;
      if_ip_mtu = ing_ip_mtu med mtu; if_frag_buf = ing_frag_buffer_size; if_frag_busy = false } in
    let socks = List.rev !socks in
    let show_out o = match o with
      | Ok l -> print_emitted l
      | Err _ -> print_string "ERR\n"
      | Panic -> print_string "PANIC\n" in
    match !ev with
    | Some ("rx" :: ll :: pn :: src :: dst :: hb :: up) ->
        let p = { p_ll_dst = (match med with MIp -> HwIp | _ -> ll_p ll); p_ll_pan = oz_p pn;
                  p_src = ip_p src; p_dst = ip_p dst; p_hbh = hbh_p hb; p_upper = upper_p up } in
        (match ing_process ifc socks p with
         | Ok res ->
             let ch = ing_changed socks p res.res_deliv in
             Printf.printf "chg %s\n"
               (if ch = [] then "-"
                else String.concat " " (List.map string_of_int (List.sort compare (List.map int_of_nat ch))));
             show_out (ing_ingress_emits_p ifc p res)
         | Err _ -> print_string "ERR\n"
         | Panic -> print_string "PANIC\n")
    | Some ["tx"; "udp"; si; dst; _dport; len] ->
        print_string "chg -\n";
        let s = List.nth socks (int_of_string si) in
        show_out (ing_udp_send ifc s (ip_p dst) (zs len))
    | Some ["tx"; "connect"; dst; _dport] ->
        print_string "chg -\n";
        show_out (ing_tcp_connect ifc (ip_p dst))
    | _ -> failwith "no event")
