(* model side of stream `mcast` (format: harness/src/bin/h_mcast.rs) *)

(* big hexadecimal <-> z (addresses and the 64-bit seed do not fit an OCaml int) *)
let hexval c =
  match c with
  | '0' .. '9' -> Char.code c - 48
  | 'a' .. 'f' -> Char.code c - 87
  | 'A' .. 'F' -> Char.code c - 55
  | _ -> failwith "hex digit"

let z_of_hex (s : string) : z =
  let bits = ref [] in
  String.iter (fun c -> let d = hexval c in
    for i = 3 downto 0 do bits := ((d lsr i) land 1 = 1) :: !bits done) s;
  let rec skip = function false :: t -> skip t | l -> l in
  match skip (List.rev !bits) with
  | [] -> Z0
  | _ :: t -> Zpos (List.fold_left (fun p b -> if b then XI p else XO p) XH t)

let hex_of_z (width : int) (x : z) : string =
  let rec bits p acc = match p with
    | XH -> true :: acc
    | XO q -> bits q (false :: acc)
    | XI q -> bits q (true :: acc) in
  let b = match x with Z0 -> [] | Zpos p -> bits p [] | Zneg _ -> failwith "negative address" in
  let n = width * 4 in
  let len = List.length b in
  if len > n then failwith "address too wide";
  let arr = Array.make n false in
  List.iteri (fun i v -> arr.(n - len + i) <- v) b;
  String.init width (fun i ->
    let d = ref 0 in
    for k = 0 to 3 do d := (!d lsl 1) lor (if arr.(4 * i + k) then 1 else 0) done;
    "0123456789abcdef".[!d])

let ip_p (s : string) : ipaddr = if String.length s = 8 then V4 (z_of_hex s) else V6 (z_of_hex s)
let ip_s (a : ipaddr) : string = match a with V4 x -> hex_of_z 8 x | V6 x -> hex_of_z 32 x

let cidr_p (s : string) : cidr =
  match String.split_on_char '/' s with
  | [a; p] -> { c_addr = ip_p a; c_plen = zs p }
  | _ -> failwith ("bad cidr " ^ s)

(* k=v arguments of an op *)
let kv (ws : string list) (k : string) : string =
  let pre = k ^ "=" in
  let n = String.length pre in
  match List.find_opt (fun w -> String.length w >= n && String.sub w 0 n = pre) ws with
  | Some w -> String.sub w n (String.length w - n)
  | None -> failwith ("missing " ^ k)

let ver_s = function IgmpV1 -> "1" | IgmpV2 -> "2"
let rec_s = function RModeIsExclude -> "is-ex" | RChangeToInclude -> "to-in" | RChangeToExclude -> "to-ex"

let show_pkt (p : mpkt) : string =
  let tail = Printf.sprintf "src=%s dst=%s hop=%s ra=%d" (ip_s p.pk_src) (ip_s p.pk_dst) (sz p.pk_hop)
      (if p.pk_ra then 1 else 0) in
  match p.pk_kind with
  | KIgmpReport (v, g) -> Printf.sprintf "tx igmp-report v=%s g=%s %s" (ver_s v) (hex_of_z 8 g) tail
  | KIgmpLeave g -> Printf.sprintf "tx igmp-leave g=%s %s" (hex_of_z 8 g) tail
  | KMldReport recs ->
      Printf.sprintf "tx mld-report recs=%s %s"
        (if recs = [] then "-" else String.concat "," (List.map (fun (t, a) -> rec_s t ^ ":" ^ hex_of_z 32 a) recs)) tail

let () =
  iter_cases (fun id cfg ops ->
    Printf.printf "case %s\n" id;
    let medium = match cfg_get cfg "medium" "eth" with
      | "eth" -> MEth | "ip" -> MIp | "154" -> M154 | m -> failwith ("medium " ^ m) in
    let mtu = zs (cfg_get cfg "mtu" "1500") in
    let seed = z_of_hex (cfg_get cfg "seed" "0") in
    let probes = List.filter (fun s -> s <> "") (String.split_on_char ',' (cfg_get cfg "probe" "")) in
    let probes = List.map ip_p probes in
    let st = ref (mc_new medium (ing_ip_mtu medium mtu) seed) in
    let dead = ref false in
    let has () =
      Printf.printf "has %s\n"
        (String.concat "" (List.map (fun g -> if mc_has_multicast_group !st g then "1" else "0") probes)) in
    List.iter (fun op ->
      if not !dead then begin
        let ws = words op in
        match ws with
        | ["udp"; g] ->
            (* a UDP datagram to group g reaches the wildcard-bound socket iff the interface listens to g *)
            Printf.printf "d %d\n" (if mc_has_multicast_group !st (ip_p g) then 1 else 0);
            has ()
        | _ ->
        let ev = match ws with
          | ["join"; g] -> EvJoin (ip_p g)
          | ["leave"; g] -> EvLeave (ip_p g)
          | ["addr"; "add"; c] -> EvAddrAdd (cidr_p c)
          | ["addr"; "del"; c] -> EvAddrRemove (cidr_p c)
          | "igmpq" :: r ->
              EvIgmpQuery (zs (kv r "t"), z_of_hex (kv r "dst"), z_of_hex (kv r "group"), zs (kv r "code"))
          | "mldq" :: r ->
              EvMldQuery (zs (kv r "t"), zs (kv r "hop"), z_of_hex (kv r "src"), z_of_hex (kv r "dst"),
                          z_of_hex (kv r "mcast"), zs (kv r "code"))
          | "poll" :: r ->
              let grants =
                match List.find_opt (fun w -> String.length w > 7 && String.sub w 0 7 = "grants=") r with
                | Some w -> List.init (String.length w - 7) (fun i -> w.[7 + i] = '1')
                | None ->
                    let k = int_of_string (kv r "budget") in
                    List.init (if k < 0 then 64 else k) (fun _ -> true) in
              EvPoll (zs (kv r "t"), grants)
          | _ -> failwith ("bad op " ^ op) in
        match mc_step !st ev with
        | Ok (st', o) ->
            st := st';
            (match o with
             | ORet r -> Printf.printf "r %s\n" (sz r)
             | ONone -> Printf.printf "ok\n"
             | OPkts l -> Printf.printf "p %d\n" (List.length l); List.iter (fun p -> print_endline (show_pkt p)) l);
            has ()
        | Err e -> Printf.printf "err %s\n" (sz e); dead := true
        | Panic -> Printf.printf "panic\n"; dead := true
      end) ops)
