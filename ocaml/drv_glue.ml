(* model side of stream `glue` (see harness/src/bin/h_glue.rs) *)
let err hl = function
  | Ok q -> Printf.sprintf "err %s %s" (sz q) (sz (glue_error_size hl q))
  | Err _ -> "none"
  | Panic -> "PANIC"

let () =
  iter_cases (fun id _cfg ops ->
    Printf.printf "case %s\n" id;
    List.iter (fun op ->
      let r = match words op with
        | ["udp4"; n] -> err wipv4_HEADER_LEN (glue_quote_v4 (z_of_int (8 + int_of_string n)))
        | ["proto4"; n] -> err wipv4_HEADER_LEN (glue_quote_v4 (zs n))
        | ["udp6"; n] -> err wipv6_HEADER_LEN (glue_quote_v6 (z_of_int (8 + int_of_string n)))
        | ["nxt6"; n] -> err wipv6_HEADER_LEN (glue_quote_v6 (zs n))
        | ["hbh6"; l; mc; n; ts] ->
            let li = int_of_string l and ni = int_of_string n in
            let len = (li + 1) * 8 + 8 + ni in
            let types = if ts = "-" then [] else List.map zs (String.split_on_char ';' ts) in
            (match glue_process_hopbyhop (z_of_int len) (zs l) types (mc = "1") with
             | Ok (HbhContinue r) -> Printf.sprintf "deliver %d" (int_of_z r - 8)
             | Ok HbhDiscard -> "none"
             | Ok (HbhDiscardNotify q) -> err wipv6_HEADER_LEN (Ok q)
             | Err _ -> "none"
             | Panic -> "PANIC")
        | _ -> failwith ("bad op " ^ op) in
      print_endline r) ops)
