(* model side of streams `ring` and `pbuf` (see harness/src/bin/h_ring.rs for the format) *)
(* decimal -> z without going through OCaml's 63-bit int (arguments go up to 2^64-1) *)
let zbig (s : string) : z =
  if String.length s <= 17 then zs s
  else begin
    let ten = z_of_int 10 in
    let acc = ref Z0 in
    String.iter (fun c -> acc := Z.add (Z.mul !acc ten) (z_of_int (Char.code c - 48))) s;
    !acc
  end
let rec nat_of_int (n : int) : nat = if n <= 0 then O else S (nat_of_int (n - 1))
let optb (s : string) : z option = if s = "-" then None else Some (zs s)
let nums (l : z list) : string = String.concat "" (List.map (fun n -> " " ^ sz n) l)

let ring_op (op : string) : z ring_op =
  match words op with
  | ["enq_one"; v] -> ROEnqOne (optb v)
  | ["enq_one_with"; v; a] -> ROEnqOneWith (optb v, a = "1")
  | ["deq_one"] -> RODeqOne
  | ["deq_one_with"; a] -> RODeqOneWith (a = "1")
  | ["enq_many_with"; h; k] -> ROEnqManyWith (bytes_of_hex h, zbig k)
  | ["enq_many"; s; h] -> ROEnqMany (zbig s, bytes_of_hex h)
  | ["enq_slice"; h] -> ROEnqSlice (bytes_of_hex h)
  | ["deq_many_with"; k] -> RODeqManyWith (zbig k)
  | ["deq_many"; s] -> RODeqMany (zbig s)
  | ["deq_slice"; s] -> RODeqSlice (z_of_int (min 8192 (int_of_z (zbig (if String.length s > 17 then "8192" else s)))))
  | ["get_unalloc"; o; s; h] -> ROGetUnalloc (zbig o, zbig s, bytes_of_hex h)
  | ["wr_unalloc"; o; h] -> ROWrUnalloc (zbig o, bytes_of_hex h)
  | ["enq_unalloc"; n] -> ROEnqUnalloc (zbig n)
  | ["get_alloc"; o; s] -> ROGetAlloc (zbig o, zbig s)
  | ["rd_alloc"; o; s] -> RORdAlloc (zbig o, z_of_int (min 8192 (int_of_z (zbig (if String.length s > 17 then "8192" else s)))))
  | ["deq_alloc"; n] -> RODeqAlloc (zbig n)
  | ["clear"] -> ROClear
  | _ -> failwith ("bad ring op " ^ op)

let pb_op (op : string) : z pb_op =
  match words op with
  | ["enq"; s; h; w] -> POEnq (zbig s, zs h, bytes_of_hex w)
  | ["enq_inf"; m; h; w; k] -> POEnqInf (zbig m, zs h, bytes_of_hex w, zbig k)
  | ["deq"] -> PODeq
  | ["deq_with"; a] -> PODeqWith (a = "1")
  | ["peek"] -> POPeek
  | _ -> failwith ("bad pbuf op " ^ op)

exception Stop

let () =
  iter_cases (fun id cfg ops ->
    Printf.printf "case %s\n" id;
    match cfg_get cfg "s" "ring" with
    | "ring" ->
        let cap = int_of_string (cfg_get cfg "cap" "4") in
        let st = ref (ring_new (List.init cap (fun _ -> Z0))) in
        (try List.iter (fun op ->
           match ring_step !st (ring_op op) with
           | Ok (r1, (ns, es)) ->
               st := r1;
               Printf.printf "r ok%s %s |%s\n" (nums ns) (hex_of_bytes es) (nums (ring_status r1))
           | Err e -> Printf.printf "r E%s |%s\n" (sz e) (nums (ring_status !st))
           | Panic -> print_string "r PANIC\n"; raise Stop) ops
         with Stop -> ())
    | _ ->
        let mcap = int_of_string (cfg_get cfg "mcap" "4") and pcap = int_of_string (cfg_get cfg "pcap" "16") in
        let st = ref (pb_new (nat_of_int mcap) (nat_of_int pcap)) in
        (try List.iter (fun op ->
           match pb_step !st (pb_op op) with
           | Ok (b1, Some ((ns, h), bs)) ->
               st := b1;
               Printf.printf "r ok%s%s %s |%s\n" (match h with Some h -> " " ^ sz h | None -> "") (nums ns)
                 (hex_of_bytes bs) (nums (pb_status b1))
           | Ok (b1, None) ->
               st := b1;
               let e = (match words op with ("enq" :: _) | ("enq_inf" :: _) -> 1 | _ -> 2) in
               Printf.printf "r E%d |%s\n" e (nums (pb_status b1))
           | Err e -> Printf.printf "r E%s |%s\n" (sz e) (nums (pb_status !st))
           | Panic -> print_string "r PANIC\n"; raise Stop) ops
         with Stop -> ()))
