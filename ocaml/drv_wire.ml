(* model side of the streams `wire-<fmt>-emit` / `wire-<fmt>-parse` (formats: see [dispatch]
   at the end; case/observation format: harness/src/bin/h_wire.rs).
   A case is `case <id> fmt=<fmt>` followed by ops
     emit  buf=<hex> <repr fields k=v ...>      ->  `ret <bytes|PANIC> | <parse of the result>`
     parse bytes=<hex> <context k=v ...>         ->  `chk <ok|err|PANIC> [acc ...] parse <...>`
   To add a format: write `<fmt>_emit_op` / `<fmt>_parse_op` and add them to [dispatch]. *)

let kvs (op : string) : (string * string) list =
  List.filter_map (fun w ->
    match String.index_opt w '=' with
    | Some i -> Some (String.sub w 0 i, String.sub w (i + 1) (String.length w - i - 1))
    | None -> None) (words op)

let get kv k = try List.assoc k kv with Not_found -> failwith ("missing field " ^ k)
let geti kv k = zs (get kv k)
let getb kv k = bytes_of_hex (get kv k)
let getbool kv k = (try List.assoc k kv with Not_found -> "0") = "1"
let geto kv k = try Some (List.assoc k kv) with Not_found -> None

(* byte strings: hex up to 24 octets, otherwise #len:hash  (h = h*31 + b mod 2^30, from 7) *)
let show_bytes (l : z list) : string =
  let n = List.length l in
  if n <= 24 then hex_of_bytes l
  else
    let h = List.fold_left (fun h b -> (h * 31 + (int_of_z b land 255)) land 0x3fffffff) 7 l in
    Printf.sprintf "#%d:%x" n h

let show_o (f : 'a -> string) (x : 'a outcome) : string =
  match x with Ok a -> f a | Err _ -> "Err" | Panic -> "PANIC"
let oz = show_o sz
let ob = show_o show_bytes
let obool = show_o (fun b -> if b then "1" else "0")
let ohex = show_o hex_of_bytes
let chk (x : unit outcome) : string = match x with Ok _ -> "ok" | Err _ -> "err" | Panic -> "PANIC"
let is_ok x = match x with Ok _ -> true | _ -> false

(* ---------------- Ethernet ---------------- *)
let eth_show r = Printf.sprintf "Ok src=%s dst=%s type=%s"
  (hex_of_bytes r.eth_src) (hex_of_bytes r.eth_dst) (sz r.eth_type)
let eth_emit_op kv =
  let r = { eth_src = getb kv "src"; eth_dst = getb kv "dst"; eth_type = geti kv "type" } in
  let res = eth_emit r (getb kv "buf") in
  Printf.sprintf "ret %s | %s" (ohex res)
    (match res with Ok bs -> show_o eth_show (eth_parse bs) | _ -> "-")
let eth_parse_op kv =
  let bs = getb kv "bytes" in
  let c = eth_check_len bs in
  Printf.sprintf "chk %s%s parse %s" (chk c)
    (if is_ok c then Printf.sprintf " acc dst=%s src=%s type=%s payload=%s"
       (ob (eth_dst_addr bs)) (ob (eth_src_addr bs)) (oz (eth_ethertype bs)) (ob (eth_payload bs))
     else "")
    (show_o eth_show (eth_parse bs))

(* ---------------- ARP ---------------- *)
let arp_show r = Printf.sprintf "Ok op=%s sha=%s spa=%s tha=%s tpa=%s" (sz r.arp_oper)
  (hex_of_bytes r.arp_sha) (hex_of_bytes r.arp_spa) (hex_of_bytes r.arp_tha) (hex_of_bytes r.arp_tpa)
let arp_emit_op kv =
  let r = { arp_oper = geti kv "op"; arp_sha = getb kv "sha"; arp_spa = getb kv "spa";
            arp_tha = getb kv "tha"; arp_tpa = getb kv "tpa" } in
  let res = arp_emit r (getb kv "buf") in
  Printf.sprintf "ret %s | %s" (ohex res)
    (match res with Ok bs -> show_o arp_show (arp_parse bs) | _ -> "-")
let arp_parse_op kv =
  let bs = getb kv "bytes" in
  let c = arp_check_len bs in
  Printf.sprintf "chk %s%s parse %s" (chk c)
    (if is_ok c then Printf.sprintf " acc htype=%s ptype=%s hlen=%s plen=%s op=%s sha=%s spa=%s tha=%s tpa=%s"
       (oz (arp_hardware_type bs)) (oz (arp_protocol_type bs)) (oz (arp_hardware_len bs))
       (oz (arp_protocol_len bs)) (oz (arp_operation bs))
       (ob (arp_source_hardware_addr bs)) (ob (arp_source_protocol_addr bs))
       (ob (arp_target_hardware_addr bs)) (ob (arp_target_protocol_addr bs))
     else "")
    (show_o arp_show (arp_parse bs))

(* ---------------- UDP ---------------- *)
let udp_proto = z_of_int 17
let udp_show r = Printf.sprintf "Ok sp=%s dp=%s" (sz r.udp_sport) (sz r.udp_dport)
let udp_ctx kv =
  let src = getb kv "src" and dst = getb kv "dst" in
  (wb_pseudo_ok src dst udp_proto, wb_pseudo_fill src dst udp_proto, getbool kv "v4")
let udp_emit_op kv =
  let (sok, sfill, v4) = udp_ctx kv in
  let r = { udp_sport = geti kv "sp"; udp_dport = geti kv "dp" } in
  let res = udp_emit sfill (getbool kv "tx") r (getb kv "payload") (getb kv "buf") in
  Printf.sprintf "ret %s | %s" (ob res)
    (match res with
     | Ok bs -> Printf.sprintf "%s payload=%s" (show_o udp_show (udp_parse sok v4 (getbool kv "rx") bs)) (ob (udp_payload bs))
     | _ -> "-")
let udp_parse_op kv =
  let (sok, _, v4) = udp_ctx kv in
  let bs = getb kv "bytes" in
  let c = udp_check_len bs in
  Printf.sprintf "chk %s%s parse %s" (chk c)
    (if is_ok c then Printf.sprintf " acc sp=%s dp=%s len=%s ck=%s payload=%s vck=%s"
       (oz (udp_src_port bs)) (oz (udp_dst_port bs)) (oz (udp_len bs)) (oz (udp_checksum bs))
       (ob (udp_payload bs)) (obool (udp_verify_checksum sok v4 bs))
     else "")
    (show_o udp_show (udp_parse sok v4 (getbool kv "rx") bs))

(* ---------------- IPv4 ---------------- *)
let ipv4_show r = Printf.sprintf "Ok src=%s dst=%s proto=%s plen=%s hop=%s"
  (hex_of_bytes r.ipv4_src) (hex_of_bytes r.ipv4_dst) (sz r.ipv4_proto) (sz r.ipv4_payload_len) (sz r.ipv4_hop_limit)
let ipv4_emit_op kv =
  let r = { ipv4_src = getb kv "src"; ipv4_dst = getb kv "dst"; ipv4_proto = geti kv "proto";
            ipv4_payload_len = geti kv "plen"; ipv4_hop_limit = geti kv "hop" } in
  let res = ipv4_emit wb_plain_fill (getbool kv "tx") r (getb kv "buf") in
  Printf.sprintf "ret %s | %s" (ob res)
    (match res with Ok bs -> show_o ipv4_show (ipv4_parse wb_plain_ok (getbool kv "rx") bs) | _ -> "-")
let ipv4_parse_op kv =
  let bs = getb kv "bytes" in
  let c = ipv4_check_len bs in
  Printf.sprintf "chk %s%s parse %s" (chk c)
    (if is_ok c then Printf.sprintf " acc ver=%s hlen=%s dscp=%s ecn=%s tlen=%s id=%s df=%s mf=%s off=%s hop=%s proto=%s ck=%s src=%s dst=%s payload=%s vck=%s"
       (oz (ipv4_version bs)) (oz (ipv4_header_len bs)) (oz (ipv4_dscp bs)) (oz (ipv4_ecn bs))
       (oz (ipv4_total_len bs)) (oz (ipv4_ident bs)) (obool (ipv4_dont_frag bs)) (obool (ipv4_more_frags bs))
       (oz (ipv4_frag_offset bs)) (oz (ipv4_hop_limit_ bs)) (oz (ipv4_next_header bs)) (oz (ipv4_checksum bs))
       (ob (ipv4_src_addr bs)) (ob (ipv4_dst_addr bs)) (ob (ipv4_payload bs)) (obool (ipv4_verify_checksum wb_plain_ok bs))
     else "")
    (show_o ipv4_show (ipv4_parse wb_plain_ok (getbool kv "rx") bs))

(* ---------------- IPv6 ---------------- *)
let ipv6_show r = Printf.sprintf "Ok src=%s dst=%s nxt=%s plen=%s hop=%s"
  (hex_of_bytes r.ipv6_src) (hex_of_bytes r.ipv6_dst) (sz r.ipv6_nxt) (sz r.ipv6_payload_len) (sz r.ipv6_hop_limit)
let ipv6_emit_op kv =
  let r = { ipv6_src = getb kv "src"; ipv6_dst = getb kv "dst"; ipv6_nxt = geti kv "nxt";
            ipv6_payload_len = geti kv "plen"; ipv6_hop_limit = geti kv "hop" } in
  let res = ipv6_emit r (getb kv "buf") in
  Printf.sprintf "ret %s | %s" (ob res)
    (match res with Ok bs -> show_o ipv6_show (ipv6_parse bs) | _ -> "-")
let ipv6_parse_op kv =
  let bs = getb kv "bytes" in
  let c = ipv6_check_len bs in
  Printf.sprintf "chk %s%s parse %s" (chk c)
    (if is_ok c then Printf.sprintf " acc ver=%s tc=%s flow=%s plen=%s tlen=%s nxt=%s hop=%s src=%s dst=%s payload=%s"
       (oz (ipv6_version bs)) (oz (ipv6_traffic_class bs)) (oz (ipv6_flow_label bs)) (oz (ipv6_payload_len_ bs))
       (oz (ipv6_total_len bs)) (oz (ipv6_next_header bs)) (oz (ipv6_hop_limit_ bs))
       (ob (ipv6_src_addr bs)) (ob (ipv6_dst_addr bs)) (ob (ipv6_payload bs))
     else "")
    (show_o ipv6_show (ipv6_parse bs))

(* ---------------- ICMPv4 ---------------- *)
let show_oe (f : 'a -> string) (x : 'a outcome) : string =
  match x with Ok a -> f a | Err e -> if int_of_z e = int_of_z wb_delegated then "DELEGATED" else "Err" | Panic -> "PANIC"
let ipv4_fields pre r = Printf.sprintf "%ssrc=%s %sdst=%s %sproto=%s %splen=%s %shop=%s"
  pre (hex_of_bytes r.ipv4_src) pre (hex_of_bytes r.ipv4_dst) pre (sz r.ipv4_proto) pre (sz r.ipv4_payload_len) pre (sz r.ipv4_hop_limit)
let icmpv4_show r = match r with
  | Icmp4EchoRequest (i, s, d) -> Printf.sprintf "Ok kind=0 ident=%s seq=%s data=%s" (sz i) (sz s) (show_bytes d)
  | Icmp4EchoReply (i, s, d) -> Printf.sprintf "Ok kind=1 ident=%s seq=%s data=%s" (sz i) (sz s) (show_bytes d)
  | Icmp4DstUnreachable (c, h, d) -> Printf.sprintf "Ok kind=2 reason=%s %s data=%s" (sz c) (ipv4_fields "h" h) (show_bytes d)
  | Icmp4TimeExceeded (c, h, d) -> Printf.sprintf "Ok kind=3 reason=%s %s data=%s" (sz c) (ipv4_fields "h" h) (show_bytes d)
let icmpv4_repr_of kv =
  let hdr () = { ipv4_src = getb kv "hsrc"; ipv4_dst = getb kv "hdst"; ipv4_proto = geti kv "hproto";
                 ipv4_payload_len = geti kv "hplen"; ipv4_hop_limit = geti kv "hhop" } in
  match get kv "kind" with
  | "0" -> Icmp4EchoRequest (geti kv "ident", geti kv "seq", getb kv "data")
  | "1" -> Icmp4EchoReply (geti kv "ident", geti kv "seq", getb kv "data")
  | "2" -> Icmp4DstUnreachable (geti kv "reason", hdr (), getb kv "data")
  | _ -> Icmp4TimeExceeded (geti kv "reason", hdr (), getb kv "data")
let icmpv4_emit_op kv =
  let res = icmpv4_emit wb_plain_fill (getbool kv "tx") (getbool kv "tx4") (icmpv4_repr_of kv) (getb kv "buf") in
  Printf.sprintf "ret %s | %s" (ob res)
    (match res with Ok bs -> show_o icmpv4_show (icmpv4_parse wb_plain_ok (getbool kv "rx") bs) | _ -> "-")
let icmpv4_parse_op kv =
  let bs = getb kv "bytes" in
  let c = icmpv4_check_len bs in
  Printf.sprintf "chk %s%s parse %s" (chk c)
    (if is_ok c then Printf.sprintf " acc type=%s code=%s ck=%s ident=%s seq=%s hlen=%s data=%s vck=%s"
       (oz (icmpv4_msg_type bs)) (oz (icmpv4_msg_code bs)) (oz (icmpv4_checksum bs)) (oz (icmpv4_echo_ident bs))
       (oz (icmpv4_echo_seq_no bs)) (oz (icmpv4_header_len bs)) (ob (icmpv4_data bs))
       (if icmpv4_verify_checksum wb_plain_ok bs then "1" else "0")
     else "")
    (show_o icmpv4_show (icmpv4_parse wb_plain_ok (getbool kv "rx") bs))

(* ---------------- ICMPv6 ---------------- *)
let icmpv6_proto = z_of_int 58
let ipv6_fields pre r = Printf.sprintf "%ssrc=%s %sdst=%s %snxt=%s %splen=%s %shop=%s"
  pre (hex_of_bytes r.ipv6_src) pre (hex_of_bytes r.ipv6_dst) pre (sz r.ipv6_nxt) pre (sz r.ipv6_payload_len) pre (sz r.ipv6_hop_limit)
let icmpv6_show r = match r with
  | Icmp6DstUnreachable (c, h, d) -> Printf.sprintf "Ok kind=0 reason=%s %s data=%s" (sz c) (ipv6_fields "h" h) (show_bytes d)
  | Icmp6PktTooBig (m, h, d) -> Printf.sprintf "Ok kind=1 word=%s %s data=%s" (sz m) (ipv6_fields "h" h) (show_bytes d)
  | Icmp6TimeExceeded (c, h, d) -> Printf.sprintf "Ok kind=2 reason=%s %s data=%s" (sz c) (ipv6_fields "h" h) (show_bytes d)
  | Icmp6ParamProblem (c, p, h, d) -> Printf.sprintf "Ok kind=3 reason=%s word=%s %s data=%s" (sz c) (sz p) (ipv6_fields "h" h) (show_bytes d)
  | Icmp6EchoRequest (i, s, d) -> Printf.sprintf "Ok kind=4 ident=%s seq=%s data=%s" (sz i) (sz s) (show_bytes d)
  | Icmp6EchoReply (i, s, d) -> Printf.sprintf "Ok kind=5 ident=%s seq=%s data=%s" (sz i) (sz s) (show_bytes d)
let icmpv6_repr_of kv =
  let hdr () = { ipv6_src = getb kv "hsrc"; ipv6_dst = getb kv "hdst"; ipv6_nxt = geti kv "hproto";
                 ipv6_payload_len = geti kv "hplen"; ipv6_hop_limit = geti kv "hhop" } in
  match get kv "kind" with
  | "0" -> Icmp6DstUnreachable (geti kv "reason", hdr (), getb kv "data")
  | "1" -> Icmp6PktTooBig (geti kv "word", hdr (), getb kv "data")
  | "2" -> Icmp6TimeExceeded (geti kv "reason", hdr (), getb kv "data")
  | "3" -> Icmp6ParamProblem (geti kv "reason", geti kv "word", hdr (), getb kv "data")
  | "4" -> Icmp6EchoRequest (geti kv "ident", geti kv "seq", getb kv "data")
  | _ -> Icmp6EchoReply (geti kv "ident", geti kv "seq", getb kv "data")
let icmpv6_ctx kv =
  let src = getb kv "src" and dst = getb kv "dst" in
  (wb_pseudo_ok src dst icmpv6_proto, wb_pseudo_fill src dst icmpv6_proto)
let icmpv6_emit_op kv =
  let (sok, sfill) = icmpv6_ctx kv in
  let res = icmpv6_emit sfill (getbool kv "tx") (icmpv6_repr_of kv) (getb kv "buf") in
  Printf.sprintf "ret %s | %s" (ob res)
    (match res with Ok bs -> show_oe icmpv6_show (icmpv6_parse sok (getbool kv "rx") bs) | _ -> "-")
let icmpv6_parse_op kv =
  let (sok, _) = icmpv6_ctx kv in
  let bs = getb kv "bytes" in
  let c = icmpv6_check_len bs in
  let ty = match icmpv6_msg_type bs with Ok t -> int_of_z t | _ -> -1 in
  Printf.sprintf "chk %s%s parse %s" (chk c)
    (if is_ok c then Printf.sprintf " acc type=%s code=%s ck=%s hlen=%s payload=%s vck=%s%s"
       (oz (icmpv6_msg_type bs)) (oz (icmpv6_msg_code bs)) (oz (icmpv6_checksum bs))
       (oz (icmpv6_header_len bs)) (ob (icmpv6_payload bs))
       (if icmpv6_verify_checksum sok bs then "1" else "0")
       (* accessors that apply to the packet's own message type *)
       (if ty = 128 || ty = 129 then Printf.sprintf " ident=%s seq=%s" (oz (icmpv6_echo_ident bs)) (oz (icmpv6_echo_seq_no bs))
        else if ty = 2 then Printf.sprintf " mtu=%s" (oz (icmpv6_pkt_too_big_mtu bs))
        else if ty = 4 then Printf.sprintf " ptr=%s" (oz (icmpv6_param_problem_ptr bs))
        else "")
     else "")
    (show_oe icmpv6_show (icmpv6_parse sok (getbool kv "rx") bs))

(* ---------------- TCP ---------------- *)
let tcp_proto = z_of_int 6
let oopt f (x : 'a option) = match x with None -> "-" | Some v -> f v
let pair_s (a, b) = Printf.sprintf "%s:%s" (sz a) (sz b)
let get_oz kv k = match get kv k with "-" -> None | v -> Some (zs v)
let get_pair kv k = match get kv k with
  | "-" -> None
  | v -> (match String.split_on_char ':' v with [a; b] -> Some (zs a, zs b) | _ -> failwith "pair")
let tcp_show r = Printf.sprintf "Ok sp=%s dp=%s ctl=%s seq=%s ack=%s win=%s ws=%s mss=%s sackp=%s s0=%s s1=%s s2=%s ts=%s payload=%s"
  (sz r.tcp_sport) (sz r.tcp_dport) (sz r.tcp_control) (sz r.tcp_seq) (oopt sz r.tcp_ack) (sz r.tcp_window)
  (oopt sz r.tcp_wscale) (oopt sz r.tcp_mss) (if r.tcp_sack_permitted then "1" else "0")
  (oopt pair_s r.tcp_sack0) (oopt pair_s r.tcp_sack1) (oopt pair_s r.tcp_sack2) (oopt pair_s r.tcp_ts)
  (show_bytes r.tcp_payload)
let tcp_ctx kv =
  let src = getb kv "src" and dst = getb kv "dst" in
  (wb_pseudo_ok src dst tcp_proto, wb_pseudo_fill src dst tcp_proto)
let tcp_emit_op kv =
  let (sok, sfill) = tcp_ctx kv in
  let r = { tcp_sport = geti kv "sp"; tcp_dport = geti kv "dp"; tcp_control = geti kv "ctl"; tcp_seq = geti kv "seq";
            tcp_ack = get_oz kv "ack"; tcp_window = geti kv "win"; tcp_wscale = get_oz kv "ws"; tcp_mss = get_oz kv "mss";
            tcp_sack_permitted = getbool kv "sackp"; tcp_sack0 = get_pair kv "s0"; tcp_sack1 = get_pair kv "s1";
            tcp_sack2 = get_pair kv "s2"; tcp_ts = get_pair kv "ts"; tcp_payload = getb kv "payload" } in
  let res = tcp_emit sfill (getbool kv "tx") r (getb kv "buf") in
  Printf.sprintf "ret %s | %s" (ob res)
    (match res with Ok bs -> show_o tcp_show (tcp_parse sok (getbool kv "rx") bs) | _ -> "-")
let show_sum (x : tcp_optsum outcome) = show_o (fun o -> Printf.sprintf "%s,%s,%s,%s,%s,%s,%s"
  (oopt sz o.os_mss) (oopt sz o.os_ws) (if o.os_sack_permitted then "1" else "0")
  (oopt pair_s o.os_sack0) (oopt pair_s o.os_sack1) (oopt pair_s o.os_sack2) (oopt pair_s o.os_ts)) x
let tcp_parse_op kv =
  let (sok, _) = tcp_ctx kv in
  let bs = getb kv "bytes" in
  let c = tcp_check_len bs in
  Printf.sprintf "chk %s%s parse %s" (chk c)
    (if is_ok c then Printf.sprintf " acc sp=%s dp=%s seq=%s ack=%s fl=%s%s%s%s%s%s%s%s%s hlen=%s win=%s ck=%s urg=%s opts=%s payload=%s seglen=%s sum=%s sackp=%s sackr=%s vck=%s"
       (oz (tcp_src_port bs)) (oz (tcp_dst_port bs)) (oz (tcp_seq_number bs)) (oz (tcp_ack_number bs))
       (obool (tcp_fin bs)) (obool (tcp_syn bs)) (obool (tcp_rst bs)) (obool (tcp_psh bs)) (obool (tcp_ack_ bs))
       (obool (tcp_urg bs)) (obool (tcp_ece bs)) (obool (tcp_cwr bs)) (obool (tcp_ns bs))
       (oz (tcp_header_len_ bs)) (oz (tcp_window_len bs)) (oz (tcp_checksum bs)) (oz (tcp_urgent_at bs))
       (ob (tcp_options bs)) (ob (tcp_payload_ bs)) (oz (tcp_segment_len bs))
       (show_sum (tcp_options_summary bs)) (obool (tcp_selective_ack_permitted bs))
       (show_o (fun ((a, b), c) -> Printf.sprintf "%s,%s,%s" (oopt pair_s a) (oopt pair_s b) (oopt pair_s c)) (tcp_selective_ack_ranges bs))
       (if tcp_verify_checksum sok bs then "1" else "0")
     else "")
    (show_o tcp_show (tcp_parse sok (getbool kv "rx") bs))

(* ---------------- TcpOption stand-alone ---------------- *)
let opt_show (o : tcp_option) : string =
  let rs = function None -> "-" | Some (a, b) -> Printf.sprintf "%s:%s" (sz a) (sz b) in
  match o with
  | OptEnd -> "end" | OptNop -> "nop"
  | OptMss v -> "mss:" ^ sz v | OptWs v -> "ws:" ^ sz v | OptSackPerm -> "sackp"
  | OptSackRange (a, b, c) -> Printf.sprintf "sack:%s,%s,%s" (rs a) (rs b) (rs c)
  | OptTs (a, b) -> Printf.sprintf "ts:%s:%s" (sz a) (sz b)
  | OptUnknown (k, d) -> Printf.sprintf "unk:%s:%s" (sz k) (if d = [] then "-" else hex_of_bytes d)
let opt_of_spec (spec : string) : tcp_option =
  let p = String.split_on_char ':' spec in
  match p with
  | ["end"] -> OptEnd | ["nop"] -> OptNop
  | ["mss"; v] -> OptMss (zs v) | ["ws"; v] -> OptWs (zs v) | ["sackp"] -> OptSackPerm
  | "sack" :: _ ->
      let rest = String.sub spec 5 (String.length spec - 5) in
      let r s = if s = "-" then None else
        (match String.split_on_char ':' s with [a; b] -> Some (zs a, zs b) | _ -> failwith "range") in
      (match String.split_on_char ',' rest with
       | [a; b; c] -> OptSackRange (r a, r b, r c) | _ -> failwith "sack")
  | ["ts"; a; b] -> OptTs (zs a, zs b)
  | ["unk"; k; d] -> OptUnknown (zs k, if d = "-" then [] else bytes_of_hex d)
  | _ -> failwith ("bad option spec " ^ spec)
let opt_parse_show (b : z list) : string =
  match tcp_option_parse b with
  | Ok (rest, o) -> Printf.sprintf "Ok rest=%d o=%s" (List.length rest) (opt_show o)
  | Err _ -> "Err" | Panic -> "PANIC"
let tcpopt_emit_op kv =
  let buf = if get kv "buf" = "-" then [] else getb kv "buf" in
  let lim = z_of_int (List.length buf) in
  match tcp_option_emit (opt_of_spec (get kv "o")) buf (z_of_int 0) lim with
  | Ok (b, pos) -> Printf.sprintf "ret %s rest=%d | %s" (show_bytes b) (List.length buf - int_of_z pos) (opt_parse_show b)
  | _ -> "ret PANIC | -"
let tcpopt_parse_op kv = "parse " ^ opt_parse_show (getb kv "bytes")

(* ---------------- dispatch ---------------- *)
let dispatch : (string * ((string * string) list -> string) * ((string * string) list -> string)) list = [
  ("eth", eth_emit_op, eth_parse_op);
  ("arp", arp_emit_op, arp_parse_op);
  ("udp", udp_emit_op, udp_parse_op);
  ("ipv4", ipv4_emit_op, ipv4_parse_op);
  ("ipv6", ipv6_emit_op, ipv6_parse_op);
  ("icmpv4", icmpv4_emit_op, icmpv4_parse_op);
  ("icmpv6", icmpv6_emit_op, icmpv6_parse_op);
  ("tcp", tcp_emit_op, tcp_parse_op);
  ("tcpopt", tcpopt_emit_op, tcpopt_parse_op);
]

let () =
  iter_cases (fun id cfg ops ->
    Printf.printf "case %s\n" id;
    let fmt = cfg_get cfg "fmt" "?" in
    (* stream `wire-oracle`: the property says that no oracle case fails *)
    if fmt = "oracle" then List.iter (fun _ -> print_endline "ok") ops else
    let (_, fe, fp) =
      try List.find (fun (n, _, _) -> n = fmt) dispatch
      with Not_found -> failwith ("drv_wire: unknown format " ^ fmt) in
    List.iter (fun op ->
      let kv = kvs op in
      match words op with
      | "emit" :: _ -> print_endline (fe kv)
      | "parse" :: _ -> print_endline (fp kv)
      | _ -> failwith ("bad op " ^ op)) ops)
