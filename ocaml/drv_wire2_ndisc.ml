(* model side of the streams `wire2-<fmt>-emit` / `wire2-<fmt>-parse` (formats: see [dispatch]
   at the end; case/observation format: harness/src/bin/h_wire2_ndisc.rs and wire2/fmt_<x>.rs).
   A case is `case <id> fmt=<fmt>` followed by ops
     emit  buf=<hex> <repr fields k=v ...>      ->  `ret <bytes|PANIC> | <parse of the result>`
     parse bytes=<hex> <context k=v ...>         ->  `chk <ok|err|PANIC> [acc ...] parse <...>` *)

let kvs (op : string) : (string * string) list =
  List.filter_map (fun w ->
    match String.index_opt w '=' with
    | Some i -> Some (String.sub w 0 i, String.sub w (i + 1) (String.length w - i - 1))
    | None -> None) (words op)

let get kv k = try List.assoc k kv with Not_found -> failwith ("missing field " ^ k)
let geti kv k = zs (get kv k)
let getb kv k = bytes_of_hex (get kv k)
let getbool kv k = (try List.assoc k kv with Not_found -> "0") = "1"
let geto kv k = try Some (List.assoc k kv) with Not_found -> None

(* byte strings: hex up to 24 octets, otherwise #len:hash  (h = h*31 + b mod 2^30, from 7) *)
let show_bytes (l : z list) : string =
  let n = List.length l in
  if n <= 24 then hex_of_bytes l
  else
    let h = List.fold_left (fun h b -> (h * 31 + (int_of_z b land 255)) land 0x3fffffff) 7 l in
    Printf.sprintf "#%d:%x" n h

let show_o (f : 'a -> string) (x : 'a outcome) : string =
  match x with Ok a -> f a | Err _ -> "Err" | Panic -> "PANIC"
let oz = show_o sz
let ob = show_o show_bytes
let obool = show_o (fun b -> if b then "1" else "0")
let ohex = show_o hex_of_bytes
let chk (x : unit outcome) : string = match x with Ok _ -> "ok" | Err _ -> "err" | Panic -> "PANIC"
let is_ok x = match x with Ok _ -> true | _ -> false
let b01 b = if b then "1" else "0"

(* u64 values (IGMP max_resp_time in µs) do not fit OCaml's 63-bit int: decimal string <-> z *)
let z_of_dec (s : string) : z =
  (* positive decimal -> z by repeated doubling on a digit array *)
  let digits = Array.init (String.length s) (fun i -> Char.code s.[i] - 48) in
  let n = Array.length digits in
  let is_zero () = Array.for_all (fun d -> d = 0) digits in
  let div2 () = let c = ref 0 in
    for i = 0 to n - 1 do let v = !c * 10 + digits.(i) in digits.(i) <- v / 2; c := v mod 2 done; !c in
  let rec bits () = if is_zero () then [] else let b = div2 () in b :: bits () in
  let bl = bits () in
  let rec pos = function
    | [] -> failwith "z_of_dec"
    | [1] -> XH
    | b :: tl -> if b = 1 then XI (pos tl) else XO (pos tl) in
  if bl = [] then Z0 else Zpos (pos bl)

let dec_of_z (x : z) : string =
  let rec bits p = match p with XH -> [1] | XO q -> 0 :: bits q | XI q -> 1 :: bits q in
  match x with
  | Z0 -> "0"
  | Zneg _ -> "-?"
  | Zpos p ->
      let bl = List.rev (bits p) in   (* most significant first *)
      let digits = ref [0] in         (* little-endian decimal digits *)
      List.iter (fun b ->
        let c = ref b in
        digits := List.map (fun d -> let v = d * 2 + !c in c := v / 10; v mod 10) !digits;
        if !c > 0 then digits := !digits @ [!c]) bl;
      String.concat "" (List.rev_map string_of_int !digits)

(* ---------------- NDISC option ---------------- *)
let show_prefix p = Printf.sprintf "plen=%s flags=%s valid=%s pref=%s prefix=%s"
  (sz p.ndpi_prefix_len) (sz p.ndpi_flags) (sz p.ndpi_valid) (sz p.ndpi_preferred) (hex_of_bytes p.ndpi_prefix)
let show_redir h = let i = h.ndrh_header in
  Printf.sprintf "src=%s dst=%s nxt=%s plen=%s hop=%s data=%s" (hex_of_bytes i.ipv6_src) (hex_of_bytes i.ipv6_dst)
    (sz i.ipv6_nxt) (sz i.ipv6_payload_len) (sz i.ipv6_hop_limit) (show_bytes h.ndrh_data)
let ndopt_show r = match r with
  | NdSourceLL a -> Printf.sprintf "Ok kind=slla addr=%s" (hex_of_bytes a)
  | NdTargetLL a -> Printf.sprintf "Ok kind=tlla addr=%s" (hex_of_bytes a)
  | NdPrefixInfo p -> Printf.sprintf "Ok kind=prefix %s" (show_prefix p)
  | NdRedirected h -> Printf.sprintf "Ok kind=redir %s" (show_redir h)
  | NdMtu m -> Printf.sprintf "Ok kind=mtu mtu=%s" (sz m)
  | NdUnknown (t, l, d) -> Printf.sprintf "Ok kind=unknown type=%s len=%s data=%s" (sz t) (sz l) (show_bytes d)
let prefix_of kv = { ndpi_prefix_len = geti kv "plen"; ndpi_flags = geti kv "flags"; ndpi_valid = geti kv "valid";
                     ndpi_preferred = geti kv "pref"; ndpi_prefix = getb kv "prefix" }
let redir_of kv = { ndrh_header = { ipv6_src = getb kv "src"; ipv6_dst = getb kv "dst"; ipv6_nxt = geti kv "nxt";
                                    ipv6_payload_len = geti kv "plen"; ipv6_hop_limit = geti kv "hop" };
                    ndrh_data = getb kv "data" }
let ndopt_repr kv = match get kv "kind" with
  | "slla" -> NdSourceLL (getb kv "addr")
  | "tlla" -> NdTargetLL (getb kv "addr")
  | "prefix" -> NdPrefixInfo (prefix_of kv)
  | "redir" -> NdRedirected (redir_of kv)
  | "mtu" -> NdMtu (geti kv "mtu")
  | _ -> NdUnknown (geti kv "type", geti kv "len", getb kv "data")
let ndopt_emit_op kv =
  let r = ndopt_repr kv in
  let res = ndopt_emit r (getb kv "buf") in
  match res with
  | Ok bs -> Printf.sprintf "ret %s blen=%s | %s" (show_bytes bs) (sz (ndopt_buffer_len r)) (show_o ndopt_show (ndopt_parse bs))
  | _ -> "ret PANIC | -"
let ndopt_parse_op kv =
  let bs = getb kv "bytes" in
  let c = ndopt_new_checked bs in
  Printf.sprintf "cl %s chk %s%s parse %s" (chk (ndopt_check_len bs)) (chk c)
    (if is_ok c then Printf.sprintf " acc type=%s len=%s lladdr=%s mtu=%s data=%s plen=%s flags=%s valid=%s pref=%s prefix=%s"
       (oz (ndopt_option_type bs)) (oz (ndopt_data_len bs)) (ohex (ndopt_link_layer_addr bs)) (oz (ndopt_mtu bs))
       (ob (ndopt_data bs)) (oz (ndopt_prefix_len bs)) (oz (ndopt_prefix_flags bs)) (oz (ndopt_valid_lifetime bs))
       (oz (ndopt_preferred_lifetime bs)) (ohex (ndopt_prefix bs))
     else "")
    (show_o ndopt_show (ndopt_parse bs))

(* ---------------- NDISC ---------------- *)
let icmp6_proto = z_of_int 58
let show_opt f o = match o with Some x -> f x | None -> "none"
let show_ll = show_opt hex_of_bytes
let ndisc_show r = match r with
  | NdiscRouterSolicit ll -> Printf.sprintf "Ok kind=rs ll=%s" (show_ll ll)
  | NdiscRouterAdvert (hl, fl, lt, rt, xt, ll, mtu, pi) ->
      Printf.sprintf "Ok kind=ra hl=%s rflags=%s lt=%s rt=%s xt=%s ll=%s mtu=%s pi=%s" (sz hl) (sz fl) (sz lt) (sz rt) (sz xt)
        (show_ll ll) (show_opt sz mtu) (show_opt (fun p -> "1 " ^ show_prefix p) pi)
  | NdiscNeighborSolicit (ta, ll) -> Printf.sprintf "Ok kind=ns target=%s ll=%s" (hex_of_bytes ta) (show_ll ll)
  | NdiscNeighborAdvert (fl, ta, ll) -> Printf.sprintf "Ok kind=na nflags=%s target=%s ll=%s" (sz fl) (hex_of_bytes ta) (show_ll ll)
  | NdiscRedirect (ta, da, ll, rh) ->
      Printf.sprintf "Ok kind=redirect target=%s dest=%s ll=%s rh=%s" (hex_of_bytes ta) (hex_of_bytes da) (show_ll ll)
        (show_opt (fun h -> "1 " ^ show_redir h) rh)
let has kv k = geto kv k <> None
let ll_of kv = if has kv "ll" then Some (getb kv "ll") else None
let ndisc_repr kv = match get kv "kind" with
  | "rs" -> NdiscRouterSolicit (ll_of kv)
  | "ra" -> NdiscRouterAdvert (geti kv "hl", geti kv "rflags", geti kv "lt", geti kv "rt", geti kv "xt", ll_of kv,
                               (if has kv "mtu" then Some (geti kv "mtu") else None),
                               (if has kv "pi" then Some (prefix_of kv) else None))
  | "ns" -> NdiscNeighborSolicit (getb kv "target", ll_of kv)
  | "na" -> NdiscNeighborAdvert (geti kv "nflags", getb kv "target", ll_of kv)
  | _ -> NdiscRedirect (getb kv "target", getb kv "dest", ll_of kv, (if has kv "rh" then Some (redir_of kv) else None))
let is_ndisc_type bs = match bs with b :: _ -> (let x = int_of_z b in x >= 0x85 && x <= 0x89) | [] -> false
let ndisc_icmp kv bs =
  if not (is_ndisc_type bs) then "-" else
  let src = getb kv "psrc" and dst = getb kv "pdst" in
  show_o ndisc_show (ndisc_icmp_parse (wb_pseudo_ok src dst icmp6_proto) (getbool kv "rx") bs)
let ndisc_emit_op kv =
  let r = ndisc_repr kv in
  let src = getb kv "psrc" and dst = getb kv "pdst" in
  let raw = ndisc_emit r (getb kv "buf") in
  let res = ndisc_icmp_emit (wb_pseudo_fill src dst icmp6_proto) (getbool kv "tx") r (getb kv "buf") in
  match res with
  | Ok bs -> Printf.sprintf "raw %s ret %s | %s | icmp %s | blen=%s" (ob raw) (show_bytes bs)
               (show_o ndisc_show (ndisc_parse bs)) (ndisc_icmp kv bs) (sz (ndisc_buffer_len r))
  | _ -> Printf.sprintf "raw %s ret PANIC | -" (ob raw)
let ndisc_parse_op kv =
  let bs = getb kv "bytes" in
  let c = icmp6h_check_len bs in
  Printf.sprintf "chk %s%s parse %s | icmp %s" (chk c)
    (if is_ok c && is_ndisc_type bs then
       Printf.sprintf " acc hl=%s rflags=%s lt=%s rt=%s xt=%s target=%s nflags=%s dest=%s payload=%s"
         (oz (ndisc_current_hop_limit bs)) (oz (ndisc_router_flags bs)) (oz (ndisc_router_lifetime bs))
         (oz (ndisc_reachable_time bs)) (oz (ndisc_retrans_time bs)) (ohex (ndisc_target_addr bs))
         (oz (ndisc_neighbor_flags bs)) (ohex (ndisc_dest_addr bs)) (ob (icmp6h_payload bs))
     else "")
    (show_o ndisc_show (ndisc_parse bs)) (ndisc_icmp kv bs)

(* ---------------- dispatch ---------------- *)
let dispatch : (string * ((string * string) list -> string) * ((string * string) list -> string)) list = [
  ("ndiscopt", ndopt_emit_op, ndopt_parse_op);
  ("ndisc", ndisc_emit_op, ndisc_parse_op);
]

let () =
  iter_cases (fun id cfg ops ->
    Printf.printf "case %s\n" id;
    let fmt = cfg_get cfg "fmt" "?" in
    let (_, fe, fp) =
      try List.find (fun (n, _, _) -> n = fmt) dispatch
      with Not_found -> failwith ("drv_wire2_ndisc: unknown format " ^ fmt) in
    List.iter (fun op ->
      let kv = kvs op in
      match words op with
      | "emit" :: _ -> print_endline (fe kv)
      | "parse" :: _ -> print_endline (fp kv)
      | _ -> failwith ("bad op " ^ op)) ops)
