(* model side of the streams `wire2-<fmt>-emit` / `wire2-<fmt>-parse` of group "v6opts" (formats:
   see [dispatch] at the end; case/observation format: harness/src/bin/h_wire2_v6opts.rs and
   wire2/fmt_<x>.rs).  A case is `case <id> fmt=<fmt>` followed by ops
     emit  buf=<hex> <repr fields k=v ...>      ->  `ret <bytes|PANIC> | <parse of the result>`
     parse bytes=<hex> <context k=v ...>         ->  `chk <ok|err|PANIC> [acc ...] parse <...>` *)

let kvs (op : string) : (string * string) list =
  List.filter_map (fun w ->
    match String.index_opt w '=' with
    | Some i -> Some (String.sub w 0 i, String.sub w (i + 1) (String.length w - i - 1))
    | None -> None) (words op)

let get kv k = try List.assoc k kv with Not_found -> failwith ("missing field " ^ k)
let geti kv k = zs (get kv k)
let getb kv k = bytes_of_hex (get kv k)
let getbool kv k = (try List.assoc k kv with Not_found -> "0") = "1"
let geto kv k = try Some (List.assoc k kv) with Not_found -> None

(* byte strings: hex up to 24 octets, otherwise #len:hash  (h = h*31 + b mod 2^30, from 7) *)
let show_bytes (l : z list) : string =
  let n = List.length l in
  if n <= 24 then hex_of_bytes l
  else
    let h = List.fold_left (fun h b -> (h * 31 + (int_of_z b land 255)) land 0x3fffffff) 7 l in
    Printf.sprintf "#%d:%x" n h

let show_o (f : 'a -> string) (x : 'a outcome) : string =
  match x with Ok a -> f a | Err _ -> "Err" | Panic -> "PANIC"
let oz = show_o sz
let ob = show_o show_bytes
let obool = show_o (fun b -> if b then "1" else "0")
let ohex = show_o hex_of_bytes
let chk (x : unit outcome) : string = match x with Ok _ -> "ok" | Err _ -> "err" | Panic -> "PANIC"
let is_ok x = match x with Ok _ -> true | _ -> false
let b01 b = if b then "1" else "0"

(* ---------------- IPv6 option ---------------- *)
let v6opt_fields r = match r with
  | V6OptPad1 -> "kind=pad1"
  | V6OptPadN l -> Printf.sprintf "kind=padn len=%s" (sz l)
  | V6OptRouterAlert k -> Printf.sprintf "kind=ra val=%s" (sz k)
  | V6OptUnknown (t, l, d) -> Printf.sprintf "kind=unk type=%s len=%s data=%s" (sz t) (sz l) (show_bytes d)
let v6opt_show r = "Ok " ^ v6opt_fields r
(* compact form inside lists *)
let v6opt_item r = match r with
  | V6OptPad1 -> "pad1"
  | V6OptPadN l -> Printf.sprintf "padn:%s" (sz l)
  | V6OptRouterAlert k -> Printf.sprintf "ra:%s" (sz k)
  | V6OptUnknown (t, l, d) -> Printf.sprintf "unk:%s:%s:%s" (sz t) (sz l) (show_bytes d)
let v6opt_items l = "[" ^ String.concat "," (List.map (show_o v6opt_item) l) ^ "]"
(* one option from an emit op's fields; [sfx] distinguishes the options of a list (hbh) *)
let v6opt_repr_sfx kv sfx =
  match get kv ("kind" ^ sfx) with
  | "pad1" -> V6OptPad1
  | "padn" -> V6OptPadN (geti kv ("len" ^ sfx))
  | "ra" -> V6OptRouterAlert (geti kv ("val" ^ sfx))
  | _ -> V6OptUnknown (geti kv ("type" ^ sfx), geti kv ("len" ^ sfx), getb kv ("data" ^ sfx))
let v6opt_emit_op kv =
  let res = v6opt_emit (v6opt_repr_sfx kv "") (getb kv "buf") in
  Printf.sprintf "ret %s | %s" (ob res)
    (match res with Ok bs -> show_o v6opt_show (v6opt_parse bs) | _ -> "-")
let v6opt_parse_op kv =
  let bs = getb kv "bytes" in
  let c = v6opt_check_len bs in
  Printf.sprintf "chk %s%s parse %s iter=%s" (chk c)
    (if is_ok c then
       let t = v6opt_option_type bs in
       Printf.sprintf " acc type=%s ft=%s%s" (oz t)
         (match t with Ok t -> oz (v6opt_failure_type t) | _ -> "-")
         (match t with
          | Ok Z0 -> ""
          | _ -> Printf.sprintf " dlen=%s data=%s" (oz (v6opt_data_len bs)) (ob (v6opt_data bs)))
     else "")
    (show_o v6opt_show (v6opt_parse bs))
    (v6opt_items (v6opt_iter bs))

(* ---------------- Hop-by-Hop options header ----------------
   emit ops: `n=<k> kind0=.. kind1=..` (explicit option list) or `mld=1 pads=<hex>`
   (Repr::mldv2_router_alert() followed by push_padn_option(p) for every octet p of pads) *)
let v6hbh_show r = Printf.sprintf "Ok n=%d opts=%s" (List.length r)
  ("[" ^ String.concat "," (List.map v6opt_item r) ^ "]")
let v6hbh_repr kv : v6hbh_repr outcome =
  if getbool kv "mld" then
    List.fold_left (fun acc p -> match acc with Ok r -> v6hbh_push_padn_option r p | x -> x)
      v6hbh_mldv2_router_alert (getb kv "pads")
  else
    let n = int_of_string (get kv "n") in
    Ok (List.init n (fun i -> v6opt_repr_sfx kv (string_of_int i)))
let v6hbh_emit_op kv =
  match v6hbh_repr kv with
  | Ok r ->
      let res = v6hbh_emit r (getb kv "buf") in
      Printf.sprintf "ret %s | %s" (ob res)
        (match res with Ok bs -> show_o v6hbh_show (v6hbh_parse bs) | _ -> "-")
  | _ -> "ret PANIC | -"
let v6hbh_parse_op kv =
  let bs = getb kv "bytes" in
  let c = v6hbh_check_len bs in
  Printf.sprintf "chk %s%s parse %s" (chk c)
    (if is_ok c then Printf.sprintf " acc options=%s" (ob (v6hbh_options bs)) else "")
    (show_o v6hbh_show (v6hbh_parse bs))

(* ---------------- Routing header ---------------- *)
let v6rt_show r = match r with
  | V6RtType2 (sl, ha) -> Printf.sprintf "Ok kind=type2 sl=%s home=%s" (sz sl) (hex_of_bytes ha)
  | V6RtRpl (sl, ci, ce, p, a) ->
      Printf.sprintf "Ok kind=rpl sl=%s ci=%s ce=%s pad=%s addrs=%s" (sz sl) (sz ci) (sz ce) (sz p) (show_bytes a)
let v6rt_emit_op kv =
  let r = match get kv "kind" with
    | "type2" -> V6RtType2 (geti kv "sl", getb kv "home")
    | _ -> V6RtRpl (geti kv "sl", geti kv "ci", geti kv "ce", geti kv "pad", getb kv "addrs") in
  let res = v6rt_emit r (getb kv "buf") in
  Printf.sprintf "ret %s | %s" (ob res)
    (match res with Ok bs -> show_o v6rt_show (v6rt_parse bs) | _ -> "-")
let v6rt_parse_op kv =
  let bs = getb kv "bytes" in
  let c = v6rt_check_len bs in
  Printf.sprintf "chk %s%s parse %s" (chk c)
    (if is_ok c then
       let t = v6rt_routing_type bs in
       Printf.sprintf " acc type=%s sl=%s%s" (oz t) (oz (v6rt_segments_left bs))
         (match t with
          | Ok t when int_of_z t = 2 -> Printf.sprintf " home=%s" (ohex (v6rt_home_address bs))
          | Ok t when int_of_z t = 3 ->
              Printf.sprintf " ci=%s ce=%s pad=%s addrs=%s" (oz (v6rt_cmpr_i bs)) (oz (v6rt_cmpr_e bs))
                (oz (v6rt_pad bs)) (ob (v6rt_addresses bs))
          | _ -> "")
     else "")
    (show_o v6rt_show (v6rt_parse bs))

(* ---------------- dispatch ---------------- *)
let dispatch : (string * ((string * string) list -> string) * ((string * string) list -> string)) list = [
  ("v6opt", v6opt_emit_op, v6opt_parse_op);
  ("v6hbh", v6hbh_emit_op, v6hbh_parse_op);
  ("v6routing", v6rt_emit_op, v6rt_parse_op);
]

let () =
  iter_cases (fun id cfg ops ->
    Printf.printf "case %s\n" id;
    let fmt = cfg_get cfg "fmt" "?" in
    let (_, fe, fp) =
      try List.find (fun (n, _, _) -> n = fmt) dispatch
      with Not_found -> failwith ("drv_wire2_v6opts: unknown format " ^ fmt) in
    List.iter (fun op ->
      let kv = kvs op in
      match words op with
      | "emit" :: _ -> print_endline (fe kv)
      | "parse" :: _ -> print_endline (fp kv)
      | _ -> failwith ("bad op " ^ op)) ops)
