(* model side of stream `tcp` (format: see harness/src/bin/h_tcp.rs).
   Usage: drv_tcp [cov]   - with `cov`, a final line `COV tag:count ...` reports how often each
   branch tag of tcp_process / tcp_dispatch / iface_tcp_ingress was taken. *)
let local_addr = z_of_int 0x0A000001
(* the interface owns a second address; the model's context has ONE address slot (cx_addr, read by
   dispatch's has_ip_addr check and by connect's source-address selection): it is filled with the
   socket's local address when the interface owns that address, else with the first address *)
let local_addr2 = z_of_int 0x0A000003
let peer_addr = z_of_int 0x0A000002
let m32 = 1 lsl 32

let cov : (int, int) Hashtbl.t = Hashtbl.create 97
let count_tags (l : z list) =
  List.iter (fun t -> let t = int_of_z t in
    Hashtbl.replace cov t (1 + (try Hashtbl.find cov t with Not_found -> 0))) l

let fuel : nat = let rec mk n acc = if n = 0 then acc else mk (n - 1) (S acc) in mk 20000 O

let peer_byte (k : int) : int = (((7 * (((k mod 253) + 253) mod 253)) + 3) mod 253)
let app_byte (i : int) : int = i mod 251

let fnv (l : z list) : int =
  List.fold_left (fun h b -> ((h lxor (int_of_z b)) * 0x01000193) land 0xFFFFFFFF) 0x811c9dc5 l

let rec take n l = if n <= 0 then [] else match l with [] -> [] | x :: r -> x :: take (n - 1) r

let kv (toks : string list) (k : string) : string option =
  let p = k ^ "=" in
  let n = String.length p in
  List.fold_left (fun acc t ->
    match acc with Some _ -> acc | None ->
      if String.length t >= n && String.sub t 0 n = p then Some (String.sub t n (String.length t - n)) else None)
    None toks
let opt_i (v : string option) : int option =
  match v with None | Some "-" -> None | Some x -> Some (int_of_string x)
let opt_z v = match opt_i v with None -> None | Some x -> Some (z_of_int x)
let dflt d v = match v with None -> d | Some x -> x

let state_name = function
  | Closed -> "CLOSED" | Listen -> "LISTEN" | SynSent -> "SYN-SENT" | SynReceived -> "SYN-RECEIVED"
  | Established -> "ESTABLISHED" | FinWait1 -> "FIN-WAIT-1" | FinWait2 -> "FIN-WAIT-2"
  | CloseWait -> "CLOSE-WAIT" | Closing -> "CLOSING" | LastAck -> "LAST-ACK" | TimeWait -> "TIME-WAIT"

let ostr f = function None -> "-" | Some x -> f x

(* a frame as TcpRepr::emit followed by TcpRepr::parse shows it *)
let tx_line ((ip, r) : packet) : string =
  let fl = match r.r_control with CNone -> "-" | CPsh -> "P" | CSyn -> "S" | CFin -> "F" | CRst -> "R" in
  let ranges = List.filter_map (fun x -> x) r.r_sack_ranges in
  let emitted_ranges = if (not r.r_sack_permitted) && r.r_ack_number <> None then ranges else [] in
  let sack = if emitted_ranges = [] then "-" else
      String.concat ";" (List.map (fun (l, rr) -> Printf.sprintf "%s-%s" (sz l) (sz rr)) emitted_ranges) in
  let ws = match r.r_window_scale with None -> "-" | Some v -> string_of_int (min 14 (int_of_z v)) in
  Printf.sprintf "tx sa=%d sp=%s dp=%s seq=%s ack=%s fl=%s win=%s len=%d mss=%s ws=%s sackp=%d sack=%s ts=%s hl=%s ph=%08x"
    (int_of_z ip.ip_src land 255) (sz r.r_src_port) (sz r.r_dst_port) (sz r.r_seq_number) (ostr sz r.r_ack_number) fl (sz r.r_window_len)
    (List.length r.r_payload) (ostr sz r.r_max_seg_size) ws (if r.r_sack_permitted then 1 else 0) sack
    (ostr (fun (a, b) -> Printf.sprintf "%s:%s" (sz a) (sz b)) r.r_timestamp)
    (sz ip.ip_hop_limit) (fnv r.r_payload)

let ret_bytes (l : z list) : string =
  Printf.sprintf "%d %08x %s" (List.length l) (fnv l) (hex_of_bytes (take 8 l))

exception Model_panic
exception Model_livelock

let () =
  let want_cov = Array.length Sys.argv > 1 && Sys.argv.(1) = "cov" in
  iter_cases (fun id cfg ops ->
    Printf.printf "case %s\n" id;
    let geti k d = int_of_string (cfg_get cfg k d) in
    let fill = z_of_int (geti "fill" "0") in
    let mtu = z_of_int (geti "mtu" "1500") in
    let cc = if cfg_get cfg "cc" "none" = "reno" then CcReno reno_new else CcNone in
    let ts = geti "ts" "0" <> 0 in
    let isns = ref (match cfg_get cfg "isns" "-" with
      | "-" -> [] | s -> List.map zs (String.split_on_char ',' s)) in
    let store n = List.init n (fun _ -> fill) in
    let now_ms = ref 0 in
    let app_off = ref 0 in
    let dead = ref false in
    let sock = ref (match tcp_new (store (geti "rx" "64")) (store (geti "tx" "64")) cc ts with
      | Ok s -> s | _ -> dead := true; Obj.magic 0) in
    let iface_addr () = match (!sock).s_tuple with
      | Some t when t.tu_local_addr = local_addr2 -> local_addr2
      | _ -> local_addr in
    let connecting = ref false in   (* connect: source-address selection picks the first address *)
    let ctx () = { cx_now = z_of_int (!now_ms * 1000); cx_ip_mtu = mtu; cx_addr = (if !dead || !connecting then local_addr else iface_addr ());
                   cx_tsval = z_of_int ((((!now_ms + 1000) mod m32) + m32) mod m32);
                   cx_isn = (match !isns with x :: _ -> x | [] -> Z0) } in
    let pop_isn () = match !isns with _ :: r -> isns := r | [] -> () in
    let unwrap = function Ok x -> x | _ -> raise Model_panic in
    let dur v = match opt_i v with None -> None | Some ms -> Some (z_of_int (ms * 1000)) in
    List.iter (fun op ->
      if !dead then print_string "dead\n" else
      try
        let toks = words op in
        let api ev : step_out =
          let ((s', o), tags) = unwrap (tcp_step (ctx ()) !sock ev) in
          sock := s'; count_tags tags; o in
        let ret_of = function
          | OUnit -> "ok" | OErr e -> "E" ^ sz e | OSize n -> sz n | OBytes l -> ret_bytes l
          | _ -> "?" in
        let apix ev : step_out_x =
          let ((s', o), tags) = unwrap (tcp_step_x (ctx ()) !sock ev) in
          sock := s'; count_tags tags; o in
        let retx_of = function
          | XOut o -> ret_of o
          | XSizeSlice (n, sl) -> Printf.sprintf "%s sl=%s" (sz n) (sz sl)
          | XBytesSlice (l, sl) -> Printf.sprintf "%s sl=%s" (ret_bytes l) (sz sl) in
        (match toks with
         | "listen" :: port :: rest ->
             let addr = match kv rest "a" with Some "1" -> Some local_addr | Some "3" -> Some local_addr2 | _ -> None in
             Printf.printf "ret %s\n" (ret_of (api (EvListen { le_addr = addr; le_port = zs port })))
         | "connect" :: rest ->
             let rp = z_of_int (dflt 0 (opt_i (kv rest "rp"))) and lp = z_of_int (dflt 0 (opt_i (kv rest "lp"))) in
             let (v6, ra) = match kv rest "ra" with
               | None | Some "4" -> (false, peer_addr) | Some "0" -> (false, Z0)
               | Some "6" -> (true, z_of_int 2) | Some "60" -> (true, Z0)
               | Some x -> failwith ("bad ra " ^ x) in
             let la = match kv rest "la" with
               | None | Some "-" -> None | Some "4" -> Some local_addr | Some "0" -> Some Z0
               | Some x -> failwith ("bad la " ^ x) in
             if v6 && la = None && ra <> Z0 && int_of_z rp <> 0 && int_of_z lp <> 0 then
               failwith "connect to an IPv6 peer without a local address is outside the model";
             connecting := true;
             let o = (try apix (XConnectAf (v6, ra, rp, { le_addr = la; le_port = lp }))
                      with e -> connecting := false; raise e) in
             connecting := false;
             if o = XOut OUnit then pop_isn ();
             Printf.printf "ret %s\n" (retx_of o)
         | ["close"] -> Printf.printf "ret %s\n" (ret_of (api EvClose))
         | ["abort"] -> Printf.printf "ret %s\n" (ret_of (api EvAbort))
         | ["send"; n] ->
             let n = int_of_string n in
             let off = !app_off in
             let data = List.init n (fun i -> z_of_int (app_byte (off + i))) in
             let o = api (EvSend data) in
             (match o with OSize k -> app_off := !app_off + int_of_z k | _ -> ());
             Printf.printf "ret %s\n" (ret_of o)
         | ["sendf"; k] ->
             let k = int_of_string k in
             let off = !app_off in
             let data = List.init k (fun i -> z_of_int (app_byte (off + i))) in
             let o = apix (XSendWith data) in
             (match o with XSizeSlice (n, _) -> app_off := !app_off + int_of_z n | _ -> ());
             Printf.printf "ret %s\n" (retx_of o)
         | ["recvf"; k] -> Printf.printf "ret %s\n" (retx_of (apix (XRecvWith (zs k))))
         | ["recv"; n] -> Printf.printf "ret %s\n" (ret_of (api (EvRecv (zs n))))
         | ["peek"; n] -> Printf.printf "ret %s\n" (ret_of (api (EvPeekSlice (zs n))))
         | ["peekc"; n] -> Printf.printf "ret %s\n" (ret_of (api (EvPeek (zs n))))
         | "set" :: rest ->
             let ev =
               match kv rest "timeout", kv rest "keepalive", kv rest "ackdelay", kv rest "nagle", kv rest "hoplimit" with
               | Some v, _, _, _, _ -> EvSetTimeout (dur (Some v))
               | _, Some v, _, _, _ -> EvSetKeepAlive (dur (Some v))
               | _, _, Some v, _, _ -> EvSetAckDelay (dur (Some v))
               | _, _, _, Some v, _ -> EvSetNagle (v <> "0")
               | _, _, _, _, Some v -> EvSetHopLimit (opt_z (Some v))
               | _ -> failwith ("bad set " ^ op) in
             Printf.printf "ret %s\n" (ret_of (api ev))
         | "seg" :: rest ->
             now_ms := dflt !now_ms (opt_i (kv rest "t"));
             let fl = dflt "-" (kv rest "fl") in
             let has c = String.contains fl c in
             let len = dflt 0 (opt_i (kv rest "len")) in
             let po = dflt "0" (kv rest "po") in
             let payload =
               if String.length po > 0 && po.[0] = 'x' then
                 let k = int_of_string (String.sub po 1 (String.length po - 1)) in
                 List.init len (fun i -> z_of_int (255 - peer_byte (k + i)))
               else let k = int_of_string po in List.init len (fun i -> z_of_int (peer_byte (k + i))) in
             let tsopt = match kv rest "ts" with
               | None | Some "-" -> None
               | Some v -> (match String.split_on_char ':' v with
                            | [a; b] -> Some (zs a, zs b) | _ -> failwith "bad ts") in
             (match control_of_flags (has 'S') (has 'F') (has 'R') (has 'P') with
              | None -> ()   (* TcpRepr::parse fails: dropped *)
              | Some ctl ->
                  let r = { r_src_port = z_of_int (dflt 4000 (opt_i (kv rest "sp")));
                            r_dst_port = z_of_int (dflt 80 (opt_i (kv rest "dp")));
                            r_control = ctl;
                            r_seq_number = z_of_int (dflt 0 (opt_i (kv rest "seq")));
                            r_ack_number = opt_z (kv rest "ack");
                            r_window_len = z_of_int (dflt 0 (opt_i (kv rest "win")));
                            r_window_scale = wire_clamp_wscale (opt_z (kv rest "ws"));
                            r_max_seg_size = opt_z (kv rest "mss");
                            r_sack_permitted = dflt 0 (opt_i (kv rest "sackp")) <> 0;
                            r_sack_ranges = [None; None; None];
                            r_timestamp = tsopt;
                            r_payload = payload } in
                  let ip = { ip_src = peer_addr; ip_dst = (if kv rest "da" = Some "3" then local_addr2 else local_addr);
                             ip_hop_limit = z_of_int 64;
                             ip_payload_len = Z.add (repr_header_len r) (z_of_int len) } in
                  let was_listen = (!sock).s_state = Listen in
                  (match api (EvSegment (ip, r)) with
                   | OReply (Some p) -> print_string (tx_line p); print_newline ()
                   | _ -> ());
                  if was_listen && (!sock).s_state = SynReceived then pop_isn ())
         | "poll" :: rest ->
             now_ms := dflt !now_ms (opt_i (kv rest "t"));
             let budget = opt_z (kv rest "b") in
             let (((s', ps), tags), fin) = unwrap (iface_poll_egress fuel (ctx ()) !sock budget) in
             sock := s'; count_tags tags;
             if (not fin) && budget = None then raise Model_livelock;
             List.iter (fun p -> print_string (tx_line p); print_newline ()) ps
         | _ -> failwith ("bad op " ^ op));
        let s = !sock in
        (match iface_poll_at (ctx ()) s with
         | Ok pa ->
             Printf.printf "st %s\n" (state_name s.s_state);
             Printf.printf "q %s %s\n" (sz (tcp_send_queue s)) (sz (tcp_recv_queue s));
             let b x = if x then 1 else 0 in
             Printf.printf "cap %d%d%d%d%d%d%d\n" (b (tcp_may_send s)) (b (tcp_may_recv s)) (b (tcp_can_send s)) (b (tcp_can_recv s))
               (b (tcp_is_listening s)) (b (tcp_is_active s)) (b (tcp_is_open s));
             (match pa with
              | None -> print_string "pollat none\n"
              | Some t ->
                  let us = int_of_z t in
                  if us = 0 then print_string "pollat now\n"
                  else if us mod 1000 = 0 then Printf.printf "pollat %d\n" (us / 1000)
                  else Printf.printf "pollat %d.%03d\n" (us / 1000) (us mod 1000))
         | _ -> dead := true; print_string "obs PANIC\n")
      with Model_panic -> dead := true; print_string "ret PANIC\n"
         | Model_livelock -> dead := true; print_string "ret LIVELOCK\n") ops);
  if want_cov then begin
    let l = Hashtbl.fold (fun k v acc -> (k, v) :: acc) cov [] in
    let l = List.sort compare l in
    Printf.printf "COV %s\n" (String.concat " " (List.map (fun (k, v) -> Printf.sprintf "%d:%d" k v) l))
  end
