(* model side of stream `dhcp` (see harness/src/bin/h_dhcp.rs for the case format) *)

(* z <-> Int64 / decimal text (Instants are i64 microseconds; OCaml's int is only 63 bits) *)
let rec pos_of_i64 (n : int64) : positive =
  if Int64.compare n 1L <= 0 then XH
  else if Int64.logand n 1L = 1L then XI (pos_of_i64 (Int64.shift_right_logical n 1))
  else XO (pos_of_i64 (Int64.shift_right_logical n 1))
let z_of_i64 (n : int64) : z =
  if n = 0L then Z0 else if Int64.compare n 0L > 0 then Zpos (pos_of_i64 n) else Zneg (pos_of_i64 (Int64.neg n))
let rec i64_of_pos (p : positive) : int64 =
  match p with XH -> 1L | XO q -> Int64.mul 2L (i64_of_pos q) | XI q -> Int64.add (Int64.mul 2L (i64_of_pos q)) 1L
let i64_of_z (x : z) : int64 = match x with Z0 -> 0L | Zpos p -> i64_of_pos p | Zneg p -> Int64.neg (i64_of_pos p)
let zl (s : string) : z = z_of_i64 (Int64.of_string s)
let lz (x : z) : string = Int64.to_string (i64_of_z x)

let ip_of_string (s : string) : int =
  match List.map int_of_string (String.split_on_char '.' s) with
  | [a; b; c; d] -> (a lsl 24) lor (b lsl 16) lor (c lsl 8) lor d
  | _ -> failwith ("bad ip " ^ s)
let string_of_ip (a : int) : string =
  Printf.sprintf "%d.%d.%d.%d" ((a lsr 24) land 255) ((a lsr 16) land 255) ((a lsr 8) land 255) (a land 255)
let zip (s : string) : z = z_of_int (ip_of_string s)
let ipz (x : z) : string = string_of_ip (int_of_z x)
let ozip (s : string) : z option = if s = "-" then None else Some (zip s)
let oipz (x : z option) : string = match x with None -> "-" | Some a -> ipz a
let oz (s : string) : z option = if s = "-" then None else Some (zl s)

let own_mac = 0x020000000001
let other_mac = 0x020000000077

let kvs (ws : string list) : (string * string) list =
  List.filter_map (fun kv ->
    match String.index_opt kv '=' with
    | Some i -> Some (String.sub kv 0 i, String.sub kv (i + 1) (String.length kv - i - 1))
    | None -> None) ws
let get m k d = try List.assoc k m with Not_found -> d

let dur (s : string) : z = if s = "max" then dh_DURATION_MAX else zl s

let mt_of_string = function
  | "discover" -> MtDiscover | "offer" -> MtOffer | "request" -> MtRequest | "decline" -> MtDecline
  | "ack" -> MtAck | "nak" -> MtNak | "release" -> MtRelease | "inform" -> MtInform | _ -> MtUnknown
let string_of_mt = function
  | MtDiscover -> "discover" | MtOffer -> "offer" | MtRequest -> "request" | MtDecline -> "decline"
  | MtAck -> "ack" | MtNak -> "nak" | MtRelease -> "release" | MtInform -> "inform" | MtUnknown -> "unknown"

let rec take n l = if n = 0 then [] else match l with [] -> [] | x :: r -> x :: take (n - 1) r

let retry_of (m : (string * string) list) (rc : dhcp_retry_config) : dhcp_retry_config =
  { rc_discover_timeout = (match List.assoc_opt "disc" m with Some v -> dur v | None -> rc.rc_discover_timeout);
    rc_initial_request_timeout = (match List.assoc_opt "req" m with Some v -> dur v | None -> rc.rc_initial_request_timeout);
    rc_request_retries = (match List.assoc_opt "retries" m with Some v -> zl v | None -> rc.rc_request_retries);
    rc_min_renew_timeout = (match List.assoc_opt "minrenew" m with Some v -> dur v | None -> rc.rc_min_renew_timeout);
    rc_max_renew_timeout = (match List.assoc_opt "maxrenew" m with Some v -> dur v | None -> rc.rc_max_renew_timeout) }

let () =
  iter_cases (fun id cfg ops ->
    Printf.printf "case %s\n" id;
    if cfg_get cfg "udp" "0" <> "0" then print_string "coexist: implementation-side oracle only\n" else
    let apply = cfg_get cfg "apply" "1" <> "0" in
    let rxck = cfg_get cfg "rxck" "1" <> "0" in
    (* echoed, not modelled: the parameter request list bytes the application configured *)
    let prl = ref "010306" in
    let ip_mtu = z_of_int (int_of_string (cfg_get cfg "mtu" "1514") - 14) in
    let s = dhcp_new in
    let s = dhcp_set_retry_config s (retry_of cfg dhcp_retry_default) in
    let s = dhcp_set_max_lease_duration s (match cfg_get cfg "maxlease" "-" with "-" -> None | v -> Some (dur v)) in
    let s = dhcp_set_ignore_naks s (cfg_get cfg "naks" "0" <> "0") in
    let s = if cfg_get cfg "rxbuf" "0" <> "0" then dhcp_set_receive_packet_buffer s else s in
    let sp, cp = cfg_get cfg "sport" "67", cfg_get cfg "cport" "68" in
    let s = if sp <> "67" || cp <> "68" then dhcp_set_ports s (zl sp) (zl cp) else s in
    let st = ref (dhif_new s) in
    let now = ref 0L and last_pollat = ref None and dead = ref false in
    let cur_xid = ref 1 and prev_xid = ref None in
    let xid_of (n : z) : z = z_of_int (1000 + int_of_z n) in
    let hw = z_of_int own_mac in
    let do_poll (t : int64) =
      now := t;
      let (st', obs) = dhif_poll xid_of hw ip_mtu apply (z_of_i64 t) !st in
      st := st';
      List.iter (fun o ->
        match o with
        | ObTxDhcp (f, eth) ->
            let x = int_of_z f.tx_transaction_id in
            let rel = if x = !cur_xid then "same" else "new" in
            if x <> !cur_xid then begin prev_xid := Some !cur_xid; cur_xid := x end;
            let e = int_of_z eth in
            let ethdst = if e = 0 then "bcast"
              else Printf.sprintf "02-01-%02x-%02x-%02x-%02x" ((e lsr 24) land 255) ((e lsr 16) land 255) ((e lsr 8) land 255) (e land 255) in
            Printf.printf "tx dhcp %s xid=%s ci=%s req=%s sid=%s bc=0 src=%s dst=%s ethdst=%s sport=%s dport=%s maxsz=%s ch=own cid=own prl=%s secs=0 hop=64\n"
              (string_of_mt f.tx_message_type) rel (ipz f.tx_client_ip) (oipz f.tx_requested_ip) (oipz f.tx_server_identifier)
              (ipz f.tx_src_addr) (ipz f.tx_dst_addr) ethdst (lz f.tx_src_port) (lz f.tx_dst_port) (lz f.tx_max_size) !prl
        | ObTxArp (spa, tpa) -> Printf.printf "tx arp req spa=%s tpa=%s ethdst=bcast\n" (ipz spa) (ipz tpa)
        | ObEvent None -> print_string "ev none\n"
        | ObEvent (Some EvDeconfigured) -> print_string "ev deconf\n"
        | ObEvent (Some (EvConfigured (c, pkt))) ->
            Printf.printf "ev conf addr=%s/%s router=%s dns=%s srv=%s sid=%s pkt=%d\n"
              (ipz c.cf_address) (lz c.cf_prefix_len) (oipz c.cf_router)
              (if c.cf_dns_servers = [] then "-" else String.concat "," (List.map ipz c.cf_dns_servers))
              (ipz c.cf_server.si_address) (ipz c.cf_server.si_identifier) (if pkt then 1 else 0)
        | ObPollAt t -> last_pollat := Some (i64_of_z t); Printf.printf "pollat %s\n" (lz t)
        | ObPanic -> dead := true; print_string "PANIC\n"
        | ObDiverge -> dead := true; print_string "DIVERGE\n") obs in
    List.iter (fun op ->
      if not !dead then begin
        let ws = words op in
        let m = kvs ws in
        match ws with
        | "poll" :: _ -> do_poll (Int64.of_string (get m "t" "0"))
        | "pollrel" :: _ ->
            let d = Int64.of_string (get m "d" "0") in
            let base = match !last_pollat with Some p -> p | None -> !now in
            let sum = Int64.add base d in
            (* saturating add *)
            let sum = if Int64.compare d 0L >= 0 && Int64.compare sum base < 0 then Int64.max_int
                      else if Int64.compare d 0L < 0 && Int64.compare sum base > 0 then Int64.min_int else sum in
            do_poll (if Int64.compare sum !now > 0 then sum else !now)
        | "srv" :: _ ->
            let xid = match get m "xid" "same" with
              | "same" -> !cur_xid
              | "stale" -> (match !prev_xid with Some p -> p | None -> !cur_xid lxor 0x2aaaaaaa)
              | _ -> !cur_xid lxor 0x55555555 in
            let bad = get m "bad" "-" in
            let dns = match get m "dns" "-" with
              | "-" -> None
              | l -> Some (take 3 (List.map zip (List.filter (fun x -> x <> "") (String.split_on_char ',' l)))) in
            let r = { r_message_type = mt_of_string (get m "kind" "ack");
                      r_transaction_id = z_of_int xid;
                      r_client_hardware_address = z_of_int (if get m "mac" "own" = "own" then own_mac else other_mac);
                      r_your_ip = zip (get m "yi" "10.0.0.42");
                      r_server_identifier = ozip (get m "sid" "10.0.0.1");
                      r_subnet_mask = ozip (get m "mask" "255.255.255.0");
                      r_router = ozip (get m "router" "-");
                      r_lease_duration = oz (get m "lease" "-");
                      r_renew_duration = oz (get m "t1" "-");
                      r_rebind_duration = oz (get m "t2" "-");
                      r_dns_servers = dns } in
            let parsed = match bad with
              | "trunc" | "magic" | "htype" | "hlen" | "nomsgtype" | "opcode" -> None
              | _ -> Some r in
            let eth = match get m "eth" "bcast" with "bcast" -> 0 | "own" -> 1 | _ -> 2 in
            let fr = FrDhcp (z_of_int eth, (bad <> "ipcksum" || not rxck), (bad <> "udpcksum" || not rxck),
                             zip (get m "ipsrc" "10.0.0.1"), zip (get m "ipdst" "255.255.255.255"),
                             zl (get m "sport" "67"), zl (get m "dport" "68"), parsed) in
            st := dhif_enqueue !st fr
        | "arp" :: _ -> st := dhif_enqueue !st (FrArp (zip (get m "spa" "10.0.0.1"), dhif_own_addr !st))
        | "setmaxlease" :: v :: _ ->
            st := dhif_map_sock (fun s -> dhcp_set_max_lease_duration s (if v = "-" then None else Some (dur v))) !st
        | "reset" :: _ -> st := dhif_map_sock dhcp_reset !st
        | "setports" :: sp :: cp :: _ -> st := dhif_map_sock (fun s -> dhcp_set_ports s (zl sp) (zl cp)) !st
        | "setrxbuf" :: _ -> st := dhif_map_sock dhcp_set_receive_packet_buffer !st
        | "setopts" :: v :: _ ->
            (* option bytes are not modelled; the setter refuses data longer than 255 octets *)
            if v <> "-" && List.exists (fun t ->
                 match String.split_on_char ':' t with [_; l] -> int_of_string l > 255 | _ -> false)
                 (String.split_on_char ',' v)
            then print_string "rejected\n"
        | "setprl" :: v :: _ ->
            if String.length v / 2 > 255 then print_string "rejected\n" else prl := v
        | "setnaks" :: v :: _ -> st := dhif_map_sock (fun s -> dhcp_set_ignore_naks s (v <> "0")) !st
        | "setretry" :: _ -> st := dhif_map_sock (fun s -> dhcp_set_retry_config s (retry_of m s.ds_retry_config)) !st
        | _ -> failwith ("bad op " ^ op)
      end) ops)
