(* model side of the stream `wire-pretty` (property C07, pretty-printer clause; case and
   observation format: harness/src/bin/h_pretty.rs).
   A case is `case <id> kind=<k>` followed by ops
     pp <root> <hex>      root = eth|arp|ipv4|ipv6|icmpv4|udp|tcp|igmp|ndopt
   -> `OK <line> <line> ...` with one `<KIND>:<errors>:<number>` per trace entry, or `PANIC`.
   The checksum parameter of the model is RFC 1071 (WireBase.wb_plain_ok) for the IPv4 header and
   the ICMPv4 message; the UDP/TCP pseudo-header verification only selects text and is `true`. *)

let show_entry (e : pp_entry) : string =
  let fmt = int_of_z (pp_fmt e) and st = int_of_z (pp_st e) and info = int_of_z (pp_info e) in
  let k (name : string) (errs : int) = Printf.sprintf "%s:%d:%d" name errs info in
  if st = 0 then "ERR:1:0"
  else match fmt with
  | 1 -> k "ETH" 0
  | 2 -> if st = 1 then k "ARP" 0 else k "ARP-UNREC" 0
  | 3 -> (match st with 1 -> k "IPV4" 0 | 2 -> "SILENT:0:0" | 3 -> k "IPV4-FRAG" 0 | _ -> k "IPV4-?" st)
  | 4 -> (match st with 1 -> k "IPV6" 0 | 2 -> "SILENT:0:0" | _ -> k "IPV6-?" st)
  | 5 -> (match st with
          | 1 -> k "ICMPV4-ECHOREQ" 0 | 2 -> k "ICMPV4-ECHOREP" 0 | 3 -> k "ICMPV4-UNREACH" 0
          | 4 -> k "ICMPV4-TIMEEXC" 0 | 5 -> k "ICMPV4-RAW" 1 | _ -> k "ICMPV4-?" st)
  | 6 -> k "UDP" 0
  | 10 -> (match st with 1 -> k "UDP" 0 | 2 -> k "UDP" 1 | _ -> k "UDP-?" st)
  | 7 -> (match st with 1 -> k "TCP" 0 | 3 -> k "TCP" 1 | _ -> k "TCP-?" st)
  | 11 -> (match st with 1 -> k "TCP" 0 | 2 -> k "TCP" 1 | 3 -> k "TCP" 2 | _ -> k "TCP-?" st)
  | 8 -> (match st with
          | 1 -> k "IGMP-QUERY" 0 | 2 -> k "IGMP-REPORT" 0 | 3 -> k "IGMP-LEAVE" 0 | 4 -> k "IGMP-RAW" 1
          | _ -> k "IGMP-?" st)
  | 9 -> (match st with 1 -> k "NDOPT" 0 | 2 -> "SILENT:0:0" | _ -> k "NDOPT-?" st)
  | _ -> k "?" st

let () =
  let sum_ok = wb_plain_ok and psum_ok = (fun _ -> true) in
  iter_cases (fun id _cfg ops ->
    print_string ("case " ^ id ^ "\n");
    List.iter (fun op ->
      match words op with
      | ["pp"; root; hx] ->
          let bs = bytes_of_hex hx in
          let r = match root with
            | "eth" -> pp_ethernet sum_ok psum_ok bs
            | "arp" -> pp_arp bs
            | "ipv4" -> pp_ipv4 sum_ok psum_ok bs
            | "ipv6" -> pp_ipv6 sum_ok psum_ok bs
            | "icmpv4" -> pp_icmpv4 sum_ok psum_ok bs
            | "udp" -> pp_udp bs
            | "tcp" -> pp_tcp bs
            | "igmp" -> pp_igmp bs
            | "ndopt" -> pp_ndopt bs
            | _ -> failwith ("unknown root " ^ root) in
          (match r with
           | Ok tr -> print_string (String.concat " " ("OK" :: List.map show_entry tr) ^ "\n")
           | Err _ -> print_string "ERR-LEAKED\n"
           | Panic -> print_string "PANIC\n")
      | _ -> failwith ("bad op: " ^ op)) ops)
