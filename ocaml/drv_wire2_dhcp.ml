(* model side of the streams `wire2-dhcp-emit` / `wire2-dhcp-parse` (DHCPv4, Model/WireDhcpv4.v;
   case/observation format: harness/src/bin/h_wire2_dhcp.rs and wire2/fmt_dhcp.rs; the helper
   prelude is a copy of ocaml/drv_wire2.ml's).
   A case is `case <id> fmt=<fmt>` followed by ops
     emit  buf=<hex> <repr fields k=v ...>      ->  `ret <bytes|PANIC> | <parse of the result>`
     parse bytes=<hex> <context k=v ...>         ->  `chk <ok|err|PANIC> [acc ...] parse <...>` *)

let kvs (op : string) : (string * string) list =
  List.filter_map (fun w ->
    match String.index_opt w '=' with
    | Some i -> Some (String.sub w 0 i, String.sub w (i + 1) (String.length w - i - 1))
    | None -> None) (words op)

let get kv k = try List.assoc k kv with Not_found -> failwith ("missing field " ^ k)
let geti kv k = zs (get kv k)
let getb kv k = bytes_of_hex (get kv k)
let getbool kv k = (try List.assoc k kv with Not_found -> "0") = "1"
let geto kv k = try Some (List.assoc k kv) with Not_found -> None

(* byte strings: hex up to 24 octets, otherwise #len:hash  (h = h*31 + b mod 2^30, from 7) *)
let show_bytes (l : z list) : string =
  let n = List.length l in
  if n <= 24 then hex_of_bytes l
  else
    let h = List.fold_left (fun h b -> (h * 31 + (int_of_z b land 255)) land 0x3fffffff) 7 l in
    Printf.sprintf "#%d:%x" n h

let show_o (f : 'a -> string) (x : 'a outcome) : string =
  match x with Ok a -> f a | Err _ -> "Err" | Panic -> "PANIC"
let oz = show_o sz
let ob = show_o show_bytes
let obool = show_o (fun b -> if b then "1" else "0")
let ohex = show_o hex_of_bytes
let chk (x : unit outcome) : string = match x with Ok _ -> "ok" | Err _ -> "err" | Panic -> "PANIC"
let is_ok x = match x with Ok _ -> true | _ -> false
let b01 b = if b then "1" else "0"

(* u64 values (IGMP max_resp_time in µs) do not fit OCaml's 63-bit int: decimal string <-> z *)
let z_of_dec (s : string) : z =
  (* positive decimal -> z by repeated doubling on a digit array *)
  let digits = Array.init (String.length s) (fun i -> Char.code s.[i] - 48) in
  let n = Array.length digits in
  let is_zero () = Array.for_all (fun d -> d = 0) digits in
  let div2 () = let c = ref 0 in
    for i = 0 to n - 1 do let v = !c * 10 + digits.(i) in digits.(i) <- v / 2; c := v mod 2 done; !c in
  let rec bits () = if is_zero () then [] else let b = div2 () in b :: bits () in
  let bl = bits () in
  let rec pos = function
    | [] -> failwith "z_of_dec"
    | [1] -> XH
    | b :: tl -> if b = 1 then XI (pos tl) else XO (pos tl) in
  if bl = [] then Z0 else Zpos (pos bl)

let dec_of_z (x : z) : string =
  let rec bits p = match p with XH -> [1] | XO q -> 0 :: bits q | XI q -> 1 :: bits q in
  match x with
  | Z0 -> "0"
  | Zneg _ -> "-?"
  | Zpos p ->
      let bl = List.rev (bits p) in   (* most significant first *)
      let digits = ref [0] in         (* little-endian decimal digits *)
      List.iter (fun b ->
        let c = ref b in
        digits := List.map (fun d -> let v = d * 2 + !c in c := v / 10; v mod 10) !digits;
        if !c > 0 then digits := !digits @ [!c]) bl;
      String.concat "" (List.rev_map string_of_int !digits)

(* ---------------- DHCPv4 ---------------- *)
let o4 = function Some a -> hex_of_bytes a | None -> "none"
let on = function Some v -> sz v | None -> "none"
let dhcp_show r =
  let dns = match r.dhcpw_r_dns_servers with
    | None -> "none" | Some [] -> "empty"
    | Some l -> String.concat "," (List.map hex_of_bytes l) in
  Printf.sprintf "Ok mt=%s xid=%s secs=%s chaddr=%s ciaddr=%s yiaddr=%s siaddr=%s giaddr=%s bcast=%s router=%s mask=%s reqip=%s cid=%s sid=%s prl=%s dns=%s maxsz=%s lease=%s renew=%s rebind=%s add=%d"
    (sz r.dhcpw_r_message_type) (sz r.dhcpw_r_transaction_id) (sz r.dhcpw_r_secs)
    (hex_of_bytes r.dhcpw_r_client_hardware_address) (hex_of_bytes r.dhcpw_r_client_ip)
    (hex_of_bytes r.dhcpw_r_your_ip) (hex_of_bytes r.dhcpw_r_server_ip) (hex_of_bytes r.dhcpw_r_relay_agent_ip)
    (b01 r.dhcpw_r_broadcast) (o4 r.dhcpw_r_router) (o4 r.dhcpw_r_subnet_mask) (o4 r.dhcpw_r_requested_ip)
    (o4 r.dhcpw_r_client_identifier) (o4 r.dhcpw_r_server_identifier)
    (match r.dhcpw_r_parameter_request_list with Some l -> show_bytes l | None -> "none")
    dns (on r.dhcpw_r_max_size) (on r.dhcpw_r_lease_duration) (on r.dhcpw_r_renew_duration)
    (on r.dhcpw_r_rebind_duration) (List.length r.dhcpw_r_additional_options)

let rec chunks4 l = match l with
  | a :: b :: c :: d :: t -> [a; b; c; d] :: chunks4 t
  | [] -> []
  | _ -> failwith "dns= not a multiple of 4 octets"

let dhcp_repr kv =
  let ob k = Option.map bytes_of_hex (geto kv k) in
  let oi k = Option.map zs (geto kv k) in
  let add = match geto kv "add" with
    | None -> []
    | Some s -> List.map (fun e ->
        let i = String.index e ':' in
        { dhcpw_o_kind = zs (String.sub e 0 i);
          dhcpw_o_data = bytes_of_hex (String.sub e (i + 1) (String.length e - i - 1)) })
        (String.split_on_char ',' s) in
  { dhcpw_r_message_type = geti kv "mt"; dhcpw_r_transaction_id = geti kv "xid"; dhcpw_r_secs = geti kv "secs";
    dhcpw_r_client_hardware_address = getb kv "chaddr"; dhcpw_r_client_ip = getb kv "ciaddr";
    dhcpw_r_your_ip = getb kv "yiaddr"; dhcpw_r_server_ip = getb kv "siaddr";
    dhcpw_r_router = ob "router"; dhcpw_r_subnet_mask = ob "mask"; dhcpw_r_relay_agent_ip = getb kv "giaddr";
    dhcpw_r_broadcast = getbool kv "bcast"; dhcpw_r_requested_ip = ob "reqip";
    dhcpw_r_client_identifier = ob "cid"; dhcpw_r_server_identifier = ob "sid";
    dhcpw_r_parameter_request_list = ob "prl";
    dhcpw_r_dns_servers = Option.map (fun s -> chunks4 (bytes_of_hex s)) (geto kv "dns");
    dhcpw_r_max_size = oi "maxsz"; dhcpw_r_lease_duration = oi "lease"; dhcpw_r_renew_duration = oi "renew";
    dhcpw_r_rebind_duration = oi "rebind"; dhcpw_r_additional_options = add }

let rec drop n l = if n <= 0 then l else match l with [] -> [] | _ :: t -> drop (n - 1) t

let dhcp_emit_op kv =
  let r = dhcp_repr kv in
  let bl = sz (dhcpw_buffer_len r) in
  match dhcpw_emit r (getb kv "buf") with
  | Panic -> "ret PANIC | - | blen=" ^ bl
  | Err _ -> "ret Err | - | blen=" ^ bl
  | Ok bs -> Printf.sprintf "ret %s opts=%s | %s | blen=%s" (show_bytes bs) (show_bytes (drop 240 bs)) (show_o dhcp_show (dhcpw_parse bs)) bl

(* DhcpOptionWriter::emit of one option, then end(); an Err leaves the writer as it was *)
let dhcp_wopt_op kv =
  let o = { dhcpw_o_kind = geti kv "kind"; dhcpw_o_data = getb kv "data" } in
  let w0 = ([], getb kv "buf") in
  let e = dhcpw_ow_emit w0 o in
  let w1 = match e with Ok w -> w | _ -> w0 in
  let n = dhcpw_ow_end w1 in
  let w2 = match n with Ok w -> w | _ -> w1 in
  let r3 x = match x with Ok _ -> "ok" | Err _ -> "err" | Panic -> "PANIC" in
  Printf.sprintf "emit=%s end=%s buf=%s" (r3 e) (r3 n) (show_bytes (fst w2 @ snd w2))

let dhcp_parse_op kv =
  let bs = getb kv "bytes" in
  let c = dhcpw_check_len bs in
  let opts = match dhcpw_options bs with
    | Panic -> "PANIC" | Err _ -> "FUEL" | Ok [] -> "none"
    | Ok l -> String.concat "," (List.map (fun o -> Printf.sprintf "%s:%s" (sz o.dhcpw_o_kind) (show_bytes o.dhcpw_o_data)) l) in
  Printf.sprintf "chk %s%s parse %s" (chk c)
    (if is_ok c then Printf.sprintf " acc op=%s htype=%s hlen=%s xid=%s chaddr=%s hops=%s secs=%s magic=%s ciaddr=%s yiaddr=%s siaddr=%s giaddr=%s flags=%s sname=%s file=%s opts=%s"
       (oz (dhcpw_opcode bs)) (oz (dhcpw_hardware_type bs)) (oz (dhcpw_hardware_len bs)) (oz (dhcpw_transaction_id bs))
       (ohex (dhcpw_client_hardware_address bs)) (oz (dhcpw_hops bs)) (oz (dhcpw_secs bs)) (oz (dhcpw_magic_number bs))
       (ohex (dhcpw_client_ip bs)) (ohex (dhcpw_your_ip bs)) (ohex (dhcpw_server_ip bs)) (ohex (dhcpw_relay_agent_ip bs))
       (oz (dhcpw_flags bs)) (ob (dhcpw_get_sname bs)) (ob (dhcpw_get_boot_file bs)) opts
     else "")
    (show_o dhcp_show (dhcpw_parse bs))

let () =
  iter_cases (fun id cfg ops ->
    Printf.printf "case %s\n" id;
    let fmt = cfg_get cfg "fmt" "?" in
    if fmt <> "dhcp" then failwith ("drv_wire2_dhcp: unknown format " ^ fmt);
    List.iter (fun op ->
      let kv = kvs op in
      match words op with
      | "emit" :: _ -> print_endline (dhcp_emit_op kv)
      | "wopt" :: _ -> print_endline (dhcp_wopt_op kv)
      | "parse" :: _ -> print_endline (dhcp_parse_op kv)
      | _ -> failwith ("bad op " ^ op)) ops)
