(* model side of stream `asm` (see harness/src/bin/h_asm.rs for the format) *)
let show (a : asm) : string =
  let rs = asm_iter_data a in
  Printf.sprintf "pk=%s e=%d |%s" (sz (asm_peek_front a))
    (if asm_is_empty a then 1 else 0)
    (String.concat "" (List.map (fun (l, r) -> Printf.sprintf " %s-%s" (sz l) (sz r)) rs))

let () =
  iter_cases (fun id cfg ops ->
    Printf.printf "case %s\n" id;
    let n = zs (cfg_get cfg "n" "4") in
    let st = ref asm_new in
    List.iter (fun op ->
      let o = match words op with
        | ["add"; a; b] -> AAdd (zs a, zs b)
        | ["rf"] -> ARemoveFront
        | ["atrf"; a; b] -> AAtrf (zs a, zs b)
        | ["clear"] -> AClear
        | _ -> failwith ("bad op " ^ op) in
      let (st', r) = asm_step n !st o in
      st := st';
      Printf.printf "r %s %s\n" (sz r) (show st')) ops)
