(* model side of stream `pollat` (see harness/src/bin/h_pollat.rs) *)
let opt_s = function Some t -> sz t | None -> "n"

let () =
  iter_cases (fun id cfg ops ->
    Printf.printf "case %s\n" id;
    let slaac_on = cfg_get cfg "slaac" "1" = "1" in
    let st = ref slaac_new in
    List.iter (fun op ->
      match words op with
      | "sock" :: _ -> ()
      | "poll" :: ms :: rest ->
          let now = z_of_int (int_of_string ms * 1000) in
          let pas = ref [] and ras = ref [] in
          let rec go = function
            | [] -> ()
            | w :: tl when String.length w > 3 && String.sub w 0 3 = "pa=" ->
                let v = String.sub w 3 (String.length w - 3) in
                if v <> "-" then
                  pas := List.map (fun x -> if x = "n" then PIngress else PTime (zs x))
                           (String.split_on_char ';' v);
                go tl
            | "ra" :: r :: life :: pk :: valid :: tl ->
                let pfx = if pk = "-" then None
                  else Some (zs pk, z_of_int (int_of_string valid * 1000000)) in
                ras := !ras @ [((zs r, z_of_int (int_of_string life * 1000000)), pfx)];
                go tl
            | _ :: tl -> go tl in
          go rest;
          let sent =
            if slaac_on then begin
              let (s', sent) = slaac_poll cfg_IFACE_MAX_PREFIX_COUNT cfg_IFACE_MAX_ROUTE_COUNT !st !ras now in
              st := s'; sent
            end else false in
          let pa = iface_poll_at false !pas slaac_on !st now in
          Printf.printf "p rs=%d pollat=%s delay=%s\n" (if sent then 1 else 0) (opt_s pa)
            (opt_s (iface_poll_delay pa now))
      | _ -> failwith ("bad op " ^ op)) ops)
