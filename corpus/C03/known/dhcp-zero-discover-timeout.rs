use smoltcp::iface::{Config, Interface, SocketSet};
use smoltcp::phy::Medium;
use smoltcp::socket::dhcpv4;
use smoltcp::time::{Duration, Instant};
use smoltcp::wire::{EthernetAddress, HardwareAddress};
use svh::dev::QDev;
fn main() {
    let mut dev = QDev::new(Medium::Ethernet, 1514);
    let cfg = Config::new(HardwareAddress::Ethernet(EthernetAddress([2, 0, 0, 0, 0, 1])));
    let mut iface = Interface::new(cfg, &mut dev, Instant::ZERO);
    let mut sockets = SocketSet::new(vec![]);
    let mut d = dhcpv4::Socket::new();
    let mut rc = dhcpv4::RetryConfig::default();
    rc.discover_timeout = Duration::ZERO;
    d.set_retry_config(rc);
    sockets.add(d);
    std::thread::spawn(|| { std::thread::sleep(std::time::Duration::from_secs(5)); println!("HANG: poll did not return within 5 s"); std::process::exit(3); });
    iface.poll(Instant::from_millis(1000), &mut dev, &mut sockets);
    println!("poll returned, frames sent: {}", dev.drain_tx().len());
}
