#!/bin/sh
# MANIFEST.setup_cmd: build everything the claimed checks need, from files on disk only (offline).
set -e
cd "$(dirname "$0")"
export CARGO_NET_OFFLINE=true
ulimit -s unlimited 2>/dev/null || ulimit -s 1000000 2>/dev/null || true
mkdir -p work evidence/replays ocaml/gen ocaml/bin coq/Gen
python3 tools/translate.py /repo coq/Gen
cd coq
(echo "-Q . SV"; find . -name '*.v' | sed 's|^\./||' | grep -viE '(^|/)(tmp|dbg|debug|scratch|wip_|test_)|tmp\.v$|dbg\.v$' | sort) > _CoqProject
coq_makefile -f _CoqProject -o Makefile >/dev/null
cd ..
# targets: Props/Pins of every claimed property (incl. fragments' props_files) and the extractions of their streams
TARGETS=$(python3 - <<'PY'
import glob, json, os, re
enabled = open('checks/enabled.txt').read().split()
t = []
for cid in enabled:
    cfgs = [json.load(open(f)) for f in sorted(glob.glob('checks/%s.json' % cid) + glob.glob('checks/%s.*.json' % cid))]
    names = list(cfgs[0].get('props_files', [cid])) if cfgs else [cid]
    for c in cfgs[1:]:
        names += c.get('props_files', [])
    for n in dict.fromkeys(names):
        t += ['Props/%s.vo' % n, 'Pins/%s.vo' % n]
    for c in cfgs:
        for st in c.get('streams', []):
            if 'extract' in st:
                t.append(st['extract'])
print(' '.join(dict.fromkeys(t)))
PY
)
cd coq
timeout 7200 make -j16 $TARGETS > ../work/setup-coq.log 2>&1 || { tail -40 ../work/setup-coq.log; echo "setup: coq build failed"; exit 1; }
cd ..
python3 - <<'PY'
import glob, json, subprocess, sys
enabled = open('checks/enabled.txt').read().split()
done = set()
for cid in enabled:
    for f in sorted(glob.glob('checks/%s.json' % cid) + glob.glob('checks/%s.*.json' % cid)):
        for st in json.load(open(f)).get('streams', []):
            if 'extract' in st and st['driver'] not in done:
                done.add(st['driver'])
                r = subprocess.run(['ocaml/build.sh', st['model'], st['driver']])
                if r.returncode:
                    print('setup: ocaml build failed for', st['driver']); sys.exit(1)
PY
cd harness
[ -f Cargo.lock ] || cp /repo/Cargo.lock .
cargo build --offline --quiet --bins
echo "setup: ok"
