#!/bin/sh
# MANIFEST.setup_cmd: build everything from files on disk only (offline).
set -e
cd "$(dirname "$0")"
export CARGO_NET_OFFLINE=true
mkdir -p work evidence/replays ocaml/gen ocaml/bin coq/Gen
python3 tools/translate.py /repo coq/Gen
cd coq
(echo "-Q . SV"; find . -name '*.v' | sed 's|^\./||' | grep -viE '(^|/)(tmp|dbg|debug|scratch|wip_|test_)|tmp\.v$|dbg\.v$' | sort) > _CoqProject
coq_makefile -f _CoqProject -o Makefile >/dev/null
timeout 7200 make -j16 > ../work/setup-coq.log 2>&1 || { tail -40 ../work/setup-coq.log; echo "setup: coq build failed"; exit 1; }
cd ..
python3 - <<'PY'
import glob, json, subprocess, sys
done = set()
for f in sorted(glob.glob('checks/C*.json')):  # base files and fragments alike
    for st in json.load(open(f)).get('streams', []):
        if 'extract' in st and st['driver'] not in done:
            done.add(st['driver'])
            r = subprocess.run(['ocaml/build.sh', st['model'], st['driver']])
            if r.returncode:
                print('setup: ocaml build failed for', st['driver']); sys.exit(1)
PY
cd harness
[ -f Cargo.lock ] || cp /repo/Cargo.lock .
cargo build --offline --quiet --bins
echo "setup: ok"
