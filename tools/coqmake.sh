#!/bin/sh
# locked `make` in coq/ (regenerates _CoqProject/Makefile when the file list changed)
cd "$(dirname "$0")/../coq"
ulimit -s unlimited 2>/dev/null || true
mkdir -p ../work
exec flock ../work/.build.lock sh -c '
  (echo "-Q . SV"; find . -name "*.v" | sed "s|^\./||" | grep -viE "(^|/)(tmp|dbg|debug|scratch|wip_|test_)|tmp\.v$|dbg\.v$" | sort) > _CoqProject.new
  if ! cmp -s _CoqProject.new _CoqProject || [ ! -f Makefile ]; then mv _CoqProject.new _CoqProject; rm -f .Makefile.d; coq_makefile -f _CoqProject -o Makefile >/dev/null; else rm -f _CoqProject.new; fi
  make -j16 "$@"' sh "$@"
