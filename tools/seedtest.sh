#!/bin/sh
# tools/seedtest.sh <dir with patch.diff demo.rs meta.json> <name> <Cxx> [<Cyy>...]
# 1. confirms the seeded change in a scratch worktree of /repo HEAD: applies, `cargo test` still passes,
#    demo fails with the change and passes without;
# 2. stores it as /verif/seeded/<name>/ ;  3. runs tools/mutcheck.sh with it against the given checks.
set -u
SRC=$(readlink -f "$1"); NAME=$2; shift 2
V=$(dirname "$(dirname "$(readlink -f "$0")")")
W=/tmp/seedtest.$$
cleanup() { git -C /repo worktree remove --force $W >/dev/null 2>&1; rm -rf $W; git -C /repo worktree prune; }
trap cleanup EXIT INT TERM PIPE HUP
git -C /repo worktree add --detach $W HEAD >/dev/null 2>&1 || { echo "worktree failed"; exit 2; }
T=$(basename "$(grep -l . $SRC/demo.rs)" .rs)
cp $SRC/demo.rs $W/tests/seed_demo.rs
cd $W
export CARGO_NET_OFFLINE=true
echo "--- demo on unmodified code"
cargo test --offline --test seed_demo 2>&1 | grep -E "^test result|error(\[|:)" | head -5
(git apply $SRC/patch.diff) || { echo "PATCH DOES NOT APPLY to current /repo HEAD"; exit 3; }
echo "--- full suite with the change"
cargo test --offline --lib 2>&1 | grep -E "^test result" | head -3
echo "--- demo with the change"
cargo test --offline --test seed_demo 2>&1 | grep -E "^test result|panicked" | head -5
mkdir -p $V/seeded/$NAME && cp $SRC/patch.diff $SRC/demo.rs $SRC/meta.json $V/seeded/$NAME/ 2>/dev/null
cd $V
echo "--- checks against the change"
tools/mutcheck.sh $V/seeded/$NAME/patch.diff "$@"
echo "mutcheck exit=$? (1 = caught)"
