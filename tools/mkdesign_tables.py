#!/usr/bin/env python3
"""Refresh the generated tables of DESIGN.md (§12 status, §13 seeded changes, §7b findings list)
from checks/*.json, checks/enabled.txt, seeded/*/meta.json and known_findings.txt."""
import glob, json, os, re
root = os.path.join(os.path.dirname(os.path.abspath(__file__)), '..')
D = os.path.join(root, 'DESIGN.md')
s = open(D).read()
enabled = open(os.path.join(root, 'checks', 'enabled.txt')).read().split()
props = [json.loads(l) for l in open(os.path.join(root, 'properties.jsonl'))]

def block(name, text):
    global s
    a, b = '<!-- BEGIN:%s -->' % name, '<!-- END:%s -->' % name
    if a not in s:
        s += '\n%s\n%s\n' % (a, b)
    s = s[:s.index(a) + len(a)] + '\n' + text.rstrip() + '\n' + s[s.index(b):]

# status
rows = ['| property | claimed | theorems (Props files) | streams | oracles | level |', '|---|---|---|---|---|---|']
for p in props:
    cid = p['id']
    f = os.path.join(root, 'checks', cid + '.json')
    if not os.path.exists(f):
        rows.append('| %s | no | — | — | — | not built yet |' % cid)
        continue
    cfgs = [json.load(open(f))] + [json.load(open(g)) for g in sorted(glob.glob(os.path.join(root, 'checks', cid + '.*.json')))]
    names = list(cfgs[0].get('props_files', [cid])) + sum([c.get('props_files', []) for c in cfgs[1:]], [])
    nthm = 0
    for n in dict.fromkeys(names):
        pf = os.path.join(root, 'coq', 'Props', n + '.v')
        if os.path.exists(pf):
            nthm += len(re.findall(r'^\s*Theorem\s', open(pf).read(), re.M))
    streams = sorted({st.get('label', st['name']) for c in cfgs for st in c.get('streams', [])})
    oracles = sorted({o.get('name', o['harness']) for c in cfgs for o in c.get('oracles', [])})
    lt = cfgs[0].get('level_text', '')
    level = 'full' if lt.lower().startswith('full') else ('partial' if lt.lower().startswith('partial') else lt[:40])
    rows.append('| %s | %s | %d (%s) | %s | %s | %s |' % (cid, 'yes' if cid in enabled else 'not yet', nthm, ', '.join(dict.fromkeys(names)), ', '.join(streams) or '—', ', '.join(oracles) or '—', level))
block('STATUS', '\n'.join(rows))

# seeded
rows = ['| seeded change | property | what it needs to manifest | result |', '|---|---|---|---|']
for d in sorted(glob.glob(os.path.join(root, 'seeded', '*'))):
    if os.path.basename(d) == '_pending' or not os.path.exists(os.path.join(d, 'meta.json')):
        continue
    m = json.load(open(os.path.join(d, 'meta.json')))
    rows.append('| `%s` — %s | %s | %s | %s |' % (os.path.basename(d), str(m.get('summary', '')).replace('|', '/')[:220], m.get('property', '?'),
                                                  str(m.get('needs', '')).replace('|', '/')[:260], '; '.join(m.get('caught_by', ['not yet run'])).replace('|', '/')[:400]))
pend = sorted(os.path.basename(d) for d in glob.glob(os.path.join(root, 'seeded', '_pending', '*')))
text = '\n'.join(rows)
if pend:
    text += '\n\nWaiting for their property\'s check to exist (seeded/_pending): ' + ', '.join(pend) + '.'
block('SEEDED', text)

# findings
fixed, known = [], []
for line in open(os.path.join(root, 'known_findings.txt')):
    m = re.match(r'fixed:\s+property=(\S+)\s+(\S+)\s+(.*)', line.strip())
    if m:
        fixed.append('| %s | `%s` | %s |' % (m.group(1), m.group(2), m.group(3).replace('|', '/')[:300]))
    m = re.match(r'known:\s+property=(\S+)\s+id=(\S+)\s+class=(\S+)\s+--\s+(.*)', line.strip())
    if m:
        known.append('| %s | %s | `%s` | %s |' % (m.group(1), m.group(2), m.group(3), m.group(4).replace('|', '/')[:400]))
text = '%d defects repaired by `fix:` commits in /repo (the existing 673 tests pass after each), %d recorded as known findings.\n\n' % (len(fixed), len(known))
text += '| property | /repo commit | what failed |\n|---|---|---|\n' + '\n'.join(fixed)
text += '\n\nKnown findings (not repaired; the check prints KNOWN-FINDING and still fails on any other class):\n\n| property | id | oracle class | what fails |\n|---|---|---|---|\n' + '\n'.join(known)
block('FINDINGS', text)

# per-property "as built" text
txt = []
for pr in props:
    cid = pr['id']
    f = os.path.join(root, 'checks', cid + '.json')
    if not os.path.exists(f):
        continue
    cfgs = [json.load(open(f))] + [json.load(open(g)) for g in sorted(glob.glob(os.path.join(root, 'checks', cid + '.*.json')))]
    c = cfgs[0]
    txt.append('**%s — %s.** %s' % (cid, pr['title'], c.get('level_text', '').strip()))
    nm = ' | '.join(x.get('not_modelled', '') for x in cfgs if x.get('not_modelled'))
    if nm:
        txt.append('  *Not modelled / residue:* ' + nm.strip())
    txt.append('')
block('ASBUILT', '\n'.join(txt))

open(D, 'w').write(s)
print('DESIGN.md tables refreshed: %d fixed, %d known' % (len(fixed), len(known)))
