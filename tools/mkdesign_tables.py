#!/usr/bin/env python3
"""Refresh the generated tables of DESIGN.md (§12 status, §12.0 as-built texts and the list of _partial / _refuted theorems, §12.1 findings, §13 seeded changes)
from checks/*.json, checks/enabled.txt, seeded/*/meta.json and known_findings.txt."""
import glob, json, os, re
root = os.path.join(os.path.dirname(os.path.abspath(__file__)), '..')
D = os.path.join(root, 'DESIGN.md')
s = open(D).read()
enabled = open(os.path.join(root, 'checks', 'enabled.txt')).read().split()
props = [json.loads(l) for l in open(os.path.join(root, 'properties.jsonl'))]

def block(name, text):
    global s
    a, b = '<!-- BEGIN:%s -->' % name, '<!-- END:%s -->' % name
    if a not in s:
        s += '\n%s\n%s\n' % (a, b)
    s = s[:s.index(a) + len(a)] + '\n' + text.rstrip() + '\n' + s[s.index(b):]

# status
rows = ['| property | claimed | theorems (Props files) | streams | oracles | level |', '|---|---|---|---|---|---|']
for p in props:
    cid = p['id']
    f = os.path.join(root, 'checks', cid + '.json')
    if not os.path.exists(f):
        rows.append('| %s | no | — | — | — | not built yet |' % cid)
        continue
    cfgs = [json.load(open(f))] + [json.load(open(g)) for g in sorted(glob.glob(os.path.join(root, 'checks', cid + '.*.json')))]
    names = list(cfgs[0].get('props_files', [cid])) + sum([c.get('props_files', []) for c in cfgs[1:]], [])
    nthm = 0
    for n in dict.fromkeys(names):
        pf = os.path.join(root, 'coq', 'Props', n + '.v')
        if os.path.exists(pf):
            nthm += len(re.findall(r'^\s*Theorem\s', open(pf).read(), re.M))
    streams = sorted({st.get('label', st['name']) for c in cfgs for st in c.get('streams', [])})
    oracles = sorted({o.get('name', o['harness']) for c in cfgs for o in c.get('oracles', [])})
    lt = cfgs[0].get('level_text', '')
    ll = lt.lower()
    if ll.startswith('proof (components) + exploration'):
        level = 'partial: proof (components) + exploration (whole poll)'
    else:
        level = 'full' if ll.startswith('full') else ('partial' if ll.startswith('partial') else lt.split(':')[0][:60])
    rows.append('| %s | %s | %d (%s) | %s | %s | %s |' % (cid, 'yes' if cid in enabled else 'not yet', nthm, ', '.join(dict.fromkeys(names)), ', '.join(streams) or '—', ', '.join(oracles) or '—', level))
block('STATUS', '\n'.join(rows))

# seeded
rows = ['| seeded change | property | what it needs to manifest | result |', '|---|---|---|---|']
for d in sorted(glob.glob(os.path.join(root, 'seeded', '*'))):
    if os.path.basename(d) == '_pending' or not os.path.exists(os.path.join(d, 'meta.json')):
        continue
    m = json.load(open(os.path.join(d, 'meta.json')))
    rows.append('| `%s` — %s | %s | %s | %s |' % (os.path.basename(d), str(m.get('summary', '')).replace('|', '/')[:220], m.get('property', '?'),
                                                  str(m.get('needs', '')).replace('|', '/')[:260], '; '.join(m.get('caught_by', ['not yet run'])).replace('|', '/')[:400]))
pend = sorted(os.path.basename(d) for d in glob.glob(os.path.join(root, 'seeded', '_pending', '*')))
text = '\n'.join(rows)
if pend:
    text += '\n\nWaiting for their property\'s check to exist (seeded/_pending): ' + ', '.join(pend) + '.'
block('SEEDED', text)

# findings
fixed, known = [], []
for line in open(os.path.join(root, 'known_findings.txt')):
    m = re.match(r'fixed:\s+property=(\S+)\s+(\S+)\s+(.*)', line.strip())
    if m:
        fixed.append('| %s | `%s` | %s |' % (m.group(1), m.group(2), m.group(3).replace('|', '/')[:300]))
    m = re.match(r'known:\s+property=(\S+)\s+id=(\S+)\s+class=(\S+)\s+--\s+(.*)', line.strip())
    if m:
        known.append('| %s | %s | `%s` | %s |' % (m.group(1), m.group(2), m.group(3), m.group(4).replace('|', '/')[:400]))
commits = sorted({re.match(r'\| \S+ \| `(\S+)`', r).group(1) for r in fixed})
text = ('%d `fixed:` entries naming %d distinct `fix:` commits in /repo (one commit can repair what several properties reported, so it '
        'appears once per property; the existing 673 tests pass after each commit), %d recorded as known findings.\n\n' % (len(fixed), len(commits), len(known)))
text += '| property | /repo commit | what failed |\n|---|---|---|\n' + '\n'.join(fixed)
text += '\n\nKnown findings (not repaired; the check prints KNOWN-FINDING and still fails on any other class):\n\n| property | id | oracle class | what fails |\n|---|---|---|---|\n' + '\n'.join(known)
block('FINDINGS', text)

# per-property "as built" text
txt = []
for pr in props:
    cid = pr['id']
    f = os.path.join(root, 'checks', cid + '.json')
    if not os.path.exists(f):
        continue
    cfgs = [json.load(open(f))] + [json.load(open(g)) for g in sorted(glob.glob(os.path.join(root, 'checks', cid + '.*.json')))]
    c = cfgs[0]
    txt.append('**%s — %s.** %s' % (cid, pr['title'], c.get('level_text', '').strip()))
    nm = ' | '.join(x.get('not_modelled', '') for x in cfgs if x.get('not_modelled'))
    if nm:
        txt.append('  *Not modelled / residue:* ' + nm.strip())
    txt.append('')
block('ASBUILT', '\n'.join(txt))

# theorems whose NAME says they are weaker than the clause they stand for (_partial) or that refute a statement (_refuted)
prows, npart, nref = ['| theorem | Props file | first line of the comment above it |', '|---|---|---|'], 0, 0
for pf in sorted(glob.glob(os.path.join(root, 'coq', 'Props', '*.v'))):
    lines = open(pf).read().split('\n')
    for i, l in enumerate(lines):
        m = re.match(r'\s*Theorem\s+([A-Za-z0-9_\']+)', l)
        if not m or not re.search(r'_(partial|refuted)(_|$)', m.group(1)):
            continue
        if re.search(r'_partial(_|$)', m.group(1)):
            npart += 1
        else:
            nref += 1
        # the comment block that ends on the last non-blank line before the theorem, if any
        j = i - 1
        while j >= 0 and not lines[j].strip():
            j -= 1
        first = ''
        if j >= 0 and lines[j].rstrip().endswith('*)'):
            k = j
            while k >= 0 and '(*' not in lines[k]:
                k -= 1
            if k >= 0:
                first = lines[k][lines[k].index('(*') + 2:].replace('*)', '').strip()
        prows.append('| `%s` | %s | %s |' % (m.group(1), os.path.basename(pf), first.replace('|', '/')[:260] or '—'))
block('PARTIALS', '%d theorems: %d named `…_partial`, %d named `…_refuted`.\n\n' % (npart + nref, npart, nref) + '\n'.join(prows))

open(D, 'w').write(s)
print('DESIGN.md tables refreshed: %d fixed, %d known' % (len(fixed), len(known)))
