#!/usr/bin/env python3
"""Regenerate MANIFEST.json from checks/*.json and properties.jsonl."""
import glob, json, os
root = os.path.join(os.path.dirname(os.path.abspath(__file__)), '..')
props = [json.loads(l) for l in open(os.path.join(root, 'properties.jsonl'))]
# only properties listed in checks/enabled.txt (maintained by the coordinator once a check is green) are claimed
enabled = set(open(os.path.join(root, 'checks', 'enabled.txt')).read().split())
cfgs = {}
import re
for f in sorted(glob.glob(os.path.join(root, 'checks', 'C*.json'))):
    if not re.fullmatch(r'C\d+\.json', os.path.basename(f)):
        continue
    c = json.load(open(f))
    if c['id'] in enabled:
        cfgs[c['id']] = c
na_reasons = {}
p = os.path.join(root, 'checks', 'not_applicable.json')
if os.path.exists(p):
    na_reasons = json.load(open(p))
m = {
    "version": 1,
    "setup_cmd": "./setup.sh",
    "hooks": {"guard": "smoltcp_verif",
              "enable": "RUSTFLAGS=\"--cfg smoltcp_verif\" (no hook exists: everything compared is reachable through the public API)",
              "baseline_off_cmd": "cd /repo && cargo test --workspace --no-fail-fast --offline",
              "source_commits": [], "add_only": True},
    "engines": [{"name": "coq-proof+correspondence", "path": "check", "serves_properties": sorted(cfgs),
                 "kind_free_text": "Coq 8.16 theorems over executable Gallina models (coq/), tied to /repo by a constants/field translator (tools/translate.py, regenerated every run) and a differential correspondence check (extracted OCaml model vs Rust harness crate with a path dependency on /repo); implementation-side oracles search for failing inputs"}],
    "checks": [],
    "notes": "see DESIGN.md and HOWTO.md; every check rebuilds the harness against /repo's working tree (cargo path dependency) and regenerates coq/Gen from the sources",
    "not_applicable": [],
}
for pr in props:
    cid = pr['id']
    if cid in cfgs:
        c = cfgs[cid]
        m["checks"].append({
            "property_id": cid,
            "quick_cmd": "./check %s --tier quick" % cid,
            "thorough_cmd": "./check %s --tier thorough" % cid,
            "evidence_file": "/verif/evidence/%s.json" % cid,
            "replay_cmd_template": "./check %s --replay {path}" % cid,
            "engine": "coq-proof+correspondence",
            "level_claimed": {"category": "proof", "text": c.get('level_text', ''), "design_ref": c.get('design_ref', 'DESIGN.md §8 ' + cid)},
            "level_note": c.get('level_note', ''),
            "technique": c.get('technique', 'Coq proof over Gallina model + extracted-model/implementation correspondence'),
        })
    else:
        m["not_applicable"].append({"property_id": cid, "reason": na_reasons.get(cid, "check not built yet in this revision (planned, see DESIGN.md §8/§11); no claim is made")})
json.dump(m, open(os.path.join(root, 'MANIFEST.json'), 'w'), indent=1)
print('MANIFEST: %d checks, %d not_applicable' % (len(m['checks']), len(m['not_applicable'])))
