#!/usr/bin/env python3
"""Dev helper: repeatedly compile a .v file; whenever `lia` fails with 'Cannot find witness'
at a precise location, replace that occurrence by `(intuition lia)` and retry."""
import re, subprocess, sys
p = sys.argv[1]
for it in range(60):
    r = subprocess.run(['coqc', '-Q', '.', 'SV', p], capture_output=True, text=True)
    out = r.stdout + r.stderr
    if r.returncode == 0:
        print('OK after', it, 'fixes'); sys.exit(0)
    m = re.search(r'line (\d+), characters (\d+)-(\d+):\s*\nError: Tactic failure:\s+Cannot find witness', out)
    if not m:
        print(out[-3000:]); sys.exit(1)
    ln, a, b = int(m.group(1)), int(m.group(2)), int(m.group(3))
    L = open(p).read().split('\n')
    line = L[ln-1]
    if line[a:b] != 'lia':
        print('unexpected span', repr(line[a:b]), 'at', ln); print(out[-2000:]); sys.exit(1)
    if line[max(0,a-10):a].endswith('intuition '):
        print('already intuition at', ln); print(out[-2000:]); sys.exit(1)
    L[ln-1] = line[:a] + '(intuition lia)' + line[b:]
    open(p, 'w').write('\n'.join(L))
    print('fixed line', ln)
print('too many iterations')
