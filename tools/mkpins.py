#!/usr/bin/env python3
"""Dev helper (run once per property, output is committed): write coq/Pins/<Cxx>.v with
`Check (thm : <statement>).` for every Theorem of coq/Props/<Cxx>.v, so a later weakening
of a theorem statement no longer type-checks against its pin."""
import re, sys, os
cid = sys.argv[1]
root = os.path.join(os.path.dirname(os.path.abspath(__file__)), '..', 'coq')
s = open(os.path.join(root, 'Props', cid + '.v')).read()
imports = re.findall(r'^From SV Require Import (.*?)\.\s*$', s, re.M)
out = ["(* Pins: full statements of the %s theorems; a weakened theorem no longer type-checks here." % cid,
       "   Generated once by tools/mkpins.py from Props/%s.v and then committed: edit both or neither. *)" % cid]
for i in imports:
    out.append("From SV Require Import %s." % i)
out.append("From SV Require Import Props.%s." % cid)
out.append("")
for m in re.finditer(r'Theorem (\w+)\s*:(.*?)\.\s*\nProof\.', s, re.S):
    out.append("Check (%s :%s)." % (m.group(1), m.group(2)))
    out.append("")
open(os.path.join(root, 'Pins', cid + '.v'), 'w').write('\n'.join(out))
print('wrote Pins/%s.v' % cid)
