#!/usr/bin/env python3
"""Systematic mutation sweep: how many small source changes of /repo that survive its own test suite do the
checks notice?

  tools/mutsweep.py [--workers 4] [--per-file 6] [--seed 1] [--files <glob under src/>] [--budget-min 180]

For every sampled mutant (one operator applied at one site of one non-test source line):
  1. apply it in a persistent per-worker scratch worktree of /repo HEAD (/tmp/msw.<k>/repo),
  2. `cargo test --offline --lib` there; a mutant the 673 tests kill is uninteresting (status `tests`),
  3. otherwise run the quick checks mapped to the file in a per-worker copy of /verif whose harness points at
     the worktree (/tmp/msw.<k>/verif, harness build kept between mutants), status `caught:<ids>` or `survived`,
  4. revert.
Results are appended to work/mutsweep/results.jsonl (one JSON object per mutant, with the diff); survivors are
the interesting rows: each is either an equivalent mutant / one that breaks no listed property, or a blind spot.
Nothing in /repo or /verif is modified; the scratch directories are removed at the end.
"""
import fnmatch, json, os, random, re, shutil, subprocess, sys, time
from multiprocessing import Process, Queue

ROOT = os.path.dirname(os.path.dirname(os.path.abspath(__file__)))
REPO = '/repo'
OUT = os.path.join(ROOT, 'work', 'mutsweep')

# which checks look at which file (first match wins)
FILEMAP = [
    ('src/storage/assembler.rs', ['C15', 'C12']),
    ('src/storage/ring_buffer.rs', ['C14', 'C04']),
    ('src/storage/packet_buffer.rs', ['C14', 'C09']),
    ('src/socket/tcp/congestion/*', ['C02', 'C05']),
    ('src/socket/tcp.rs', ['C17', 'C04', 'C05', 'C02']),
    ('src/socket/udp.rs', ['C09']), ('src/socket/icmp.rs', ['C09']), ('src/socket/raw.rs', ['C09']),
    ('src/socket/dhcpv4.rs', ['C18', 'C13']),
    ('src/socket/dns.rs', ['C19', 'C13']),
    ('src/iface/neighbor.rs', ['C16']), ('src/iface/route.rs', ['C16']), ('src/iface/socket_meta.rs', ['C16', 'C13']),
    ('src/iface/fragmentation.rs', ['C12', 'C20']),
    ('src/iface/slaac.rs', ['C13']),
    ('src/iface/packet.rs', ['C10', 'C08']),
    ('src/iface/interface/ipv4.rs', ['C11', 'C12', 'C08']),
    ('src/iface/interface/ipv6.rs', ['C11', 'C16', 'C10']),
    ('src/iface/interface/sixlowpan.rs', ['C20', 'C10']),
    ('src/iface/interface/multicast.rs', ['C10', 'C11']),
    ('src/iface/interface/ethernet.rs', ['C16', 'C11']), ('src/iface/interface/ieee802154.rs', ['C16', 'C20']),
    ('src/iface/interface/tcp.rs', ['C11', 'C10']), ('src/iface/interface/udp.rs', ['C11', 'C09']),
    ('src/iface/interface/mod.rs', ['C13', 'C16', 'C12', 'C09']),
    ('src/wire/sixlowpan/*', ['C06', 'C07', 'C20']),
    ('src/wire/ip.rs', ['C08', 'C06', 'C11', 'C16']),
    ('src/wire/ipv4.rs', ['C06', 'C07', 'C11', 'C16', 'C18']), ('src/wire/ipv6.rs', ['C06', 'C07', 'C11', 'C16']),
    ('src/wire/ethernet.rs', ['C06', 'C07', 'C16']), ('src/wire/arp.rs', ['C06', 'C07', 'C16']),
    ('src/wire/ndisc*.rs', ['C06', 'C07', 'C16', 'C10']), ('src/wire/icmpv*.rs', ['C06', 'C07', 'C11', 'C10']),
    ('src/wire/igmp.rs', ['C06', 'C07', 'C10']), ('src/wire/mld.rs', ['C06', 'C07', 'C10']),
    ('src/wire/ieee802154.rs', ['C06', 'C07', 'C16', 'C20']),
    ('src/wire/dhcpv4.rs', ['C06', 'C07', 'C18']), ('src/wire/dns.rs', ['C19', 'C07']),
    ('src/wire/tcp.rs', ['C06', 'C07', 'C08']), ('src/wire/udp.rs', ['C06', 'C07', 'C08']),
    ('src/wire/*.rs', ['C06', 'C07']),
]

OPS = [
    (r'<=', '<'), (r'>=', '>'), (r'(?<![<>=!-])<(?![<=])', '<='), (r'(?<![<>=!-])>(?![>=])', '>='),
    (r'==', '!='), (r'!=', '=='), (r'&&', '||'), (r'\|\|', '&&'),
    (r' \+ 1\b', ''), (r' - 1\b', ''), (r' \+ ', ' - '), (r'\b0x([0-9a-f]{2})\b', None), (r'\.min\(', '.max('),
    (r'\.max\(', '.min('), (r'\btrue\b', 'false'), (r'\bfalse\b', 'true'), (r'\bif !', 'if '), (r'\.saturating_sub\(', '.wrapping_sub('),
    (r'\breturn None;', 'return Some(Default::default());'),
]
SKIP_LINE = re.compile(r'^\s*(//|#\[|net_trace!|net_debug!|net_log!|use |pub use |mod |pub mod |assert|debug_assert|write!|writeln!|const |pub const |\}|\{)')


def sh(cmd, cwd=None, env=None, timeout=3600):
    # own session: a mutant can make a unit test spin for ever; on timeout the whole process group is killed
    # (killing only `cargo` would leave the test binary running)
    import signal
    p = subprocess.Popen(cmd, cwd=cwd, env=env, stdout=subprocess.PIPE, stderr=subprocess.STDOUT, text=True, errors='replace',
                         start_new_session=True)
    try:
        out, _ = p.communicate(timeout=timeout)
        return p.returncode, out
    except subprocess.TimeoutExpired:
        try:
            os.killpg(p.pid, signal.SIGKILL)
        except OSError:
            pass
        try:
            out, _ = p.communicate(timeout=10)
        except Exception:
            out = ''
        return 124, out or ''


def checks_for(path):
    for pat, ids in FILEMAP:
        if fnmatch.fnmatch(path, pat):
            return ids
    return []


def candidates(path, rng, per_file):
    src = open(os.path.join(REPO, path)).read().split('\n')
    end = len(src)
    for i, l in enumerate(src):
        if l.startswith('#[cfg(test)]') or l.startswith('mod test') or l.startswith('pub(crate) mod test'):
            end = i
            break
    sites = []
    in_fmt = 0
    for i in range(end):
        l = src[i]
        if re.search(r'impl.*fmt::(Display|Debug)|impl.*PrettyPrint', l):
            in_fmt = 1
        if in_fmt:
            if l.startswith('}'):
                in_fmt = 0
            continue
        if SKIP_LINE.match(l) or '//' in l.split('"')[0] and l.strip().startswith('//'):
            continue
        code = l.split('//')[0]
        for k, (pat, rep) in enumerate(OPS):
            for m in re.finditer(pat, code):
                if '"' in code[:m.start()] and code[:m.start()].count('"') % 2 == 1:
                    continue
                if rep is None:
                    v = int(m.group(1), 16)
                    new = '0x%02x' % (v ^ 1)
                else:
                    new = rep
                sites.append((i, m.start(), m.end(), new, k))
    rng.shuffle(sites)
    # at most one mutant per line, spread over operators
    out, lines = [], set()
    for s in sites:
        if s[0] in lines:
            continue
        lines.add(s[0])
        out.append(s)
        if len(out) >= per_file:
            break
    res = []
    for (i, a, b, new, k) in out:
        l = src[i]
        res.append({'file': path, 'line': i + 1, 'old': l, 'new': l[:a] + new + l[b:], 'op': k})
    return res


def worker(k, q, rq):
    base = '/tmp/msw.%d' % k
    shutil.rmtree(base, ignore_errors=True)
    os.makedirs(base)
    repo, verif = base + '/repo', base + '/verif'
    sh(['git', '-C', REPO, 'worktree', 'add', '--detach', repo, 'HEAD'])
    sh(['rsync', '-a', '--exclude', '.git', '--exclude', 'work', '--exclude', 'harness/target*', '--exclude', 'evidence/replays', ROOT + '/', verif + '/'])
    ct = open(verif + '/harness/Cargo.toml').read().replace('path = "/repo"', 'path = "%s"' % repo)
    open(verif + '/harness/Cargo.toml', 'w').write(ct)
    env = dict(os.environ, CARGO_NET_OFFLINE='true', VERIF_REPO=repo, VERIF_SEED='1', CARGO_TARGET_DIR=base + '/target-repo')
    envc = dict(os.environ, CARGO_NET_OFFLINE='true', VERIF_REPO=repo, VERIF_SEED='1')
    while True:
        m = q.get()
        if m is None:
            break
        t0 = time.time()
        p = os.path.join(repo, m['file'])
        lines = open(p).read().split('\n')
        if lines[m['line'] - 1] != m['old']:
            m['status'] = 'stale'
            rq.put(m)
            continue
        lines[m['line'] - 1] = m['new']
        open(p, 'w').write('\n'.join(lines))
        try:
            rc, out = sh(['cargo', 'test', '--offline', '--lib', '--quiet'], cwd=repo, env=env, timeout=600)
            if rc != 0:
                m['status'] = 'build' if 'could not compile' in out else 'tests'
            else:
                caught = []
                detail = {}
                for c in m['checks']:
                    rc, out = sh(['./check', c, '--tier', 'quick'], cwd=verif, env=envc, timeout=2400)
                    if rc != 0:
                        caught.append(c)
                        v = [l for l in out.split('\n') if l.startswith('VIOLATION') or 'PROBLEM' in l]
                        detail[c] = v[:3]
                        break   # one catching check is enough
                m['status'] = 'caught' if caught else 'survived'
                m['caught_by'] = caught
                m['detail'] = detail
        finally:
            sh(['git', 'checkout', '--', m['file']], cwd=repo)
        m['secs'] = round(time.time() - t0)
        rq.put(m)
    sh(['git', '-C', REPO, 'worktree', 'remove', '--force', repo])
    shutil.rmtree(base, ignore_errors=True)
    sh(['git', '-C', REPO, 'worktree', 'prune'])


def main():
    a = sys.argv[1:]
    def opt(name, d):
        return a[a.index(name) + 1] if name in a else d
    workers = int(opt('--workers', '4'))
    per_file = int(opt('--per-file', '6'))
    seed = int(opt('--seed', '1'))
    budget = float(opt('--budget-min', '180')) * 60
    fglob = opt('--files', '*')
    rng = random.Random(seed)
    rc, out = sh(['git', '-C', REPO, 'ls-files', 'src'])
    files = [f for f in out.split() if f.endswith('.rs') and checks_for(f) and fnmatch.fnmatch(f, 'src/' + fglob)
             and '/tests' not in f and '/phy/' not in f and '/rpl' not in f and 'ipsec' not in f and 'pretty_print' not in f]
    muts = []
    for f in files:
        n = per_file * (3 if f.endswith('socket/tcp.rs') or f.endswith('interface/mod.rs') else 1)
        for m in candidates(f, rng, n):
            m['checks'] = checks_for(f)
            muts.append(m)
    rng.shuffle(muts)
    os.makedirs(OUT, exist_ok=True)
    print('mutsweep: %d files, %d mutants sampled, %d workers' % (len(files), len(muts), workers), flush=True)
    q, rq = Queue(), Queue()
    for m in muts:
        q.put(m)
    for _ in range(workers):
        q.put(None)
    ps = [Process(target=worker, args=(k, q, rq)) for k in range(workers)]
    for p in ps:
        p.start()
    t0 = time.time()
    done = 0
    stats = {}
    with open(os.path.join(OUT, 'results.jsonl'), 'a') as f:
        while done < len(muts) and any(p.is_alive() for p in ps):
            try:
                m = rq.get(timeout=30)
            except Exception:
                if time.time() - t0 > budget:
                    break
                continue
            done += 1
            stats[m['status']] = stats.get(m['status'], 0) + 1
            f.write(json.dumps(m) + '\n')
            f.flush()
            print('[%d/%d %4.0fm] %-8s %s:%d  %s' % (done, len(muts), (time.time() - t0) / 60, m['status'], m['file'], m['line'],
                                                   ','.join(m.get('caught_by', []))), flush=True)
            if time.time() - t0 > budget:
                # drain: stop handing out work
                while not q.empty():
                    try:
                        q.get_nowait()
                    except Exception:
                        break
                for _ in range(workers):
                    q.put(None)
                budget = float('inf')
    for p in ps:
        p.join(timeout=3000)
    print('mutsweep done:', json.dumps(stats))


if __name__ == '__main__':
    main()
