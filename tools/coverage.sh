#!/bin/sh
# Source-based code coverage of /repo/src under the correspondence streams and oracles of ./check.
#
#   tools/coverage.sh            build (instrumented) + run every stream/oracle + merge + report   (~10 min, <= 8 processes)
#   tools/coverage.sh report     only regenerate evidence/coverage.json and the DESIGN.md block from work/cov/prof
#   tools/coverage.sh plan       list the jobs without running anything
#
# Needs the offline nightly toolchain (rustup toolchain `nightly`, with llvm-tools: llvm-profdata, llvm-cov) and nothing
# from the network.  Writes: harness/target-cov/ (instrumented build, git-ignored), work/cov/ (profiles, report.txt,
# uncovered_functions.json, jobs.json; git-ignored), evidence/coverage.json, DESIGN.md (between the COVERAGE markers).
# Environment: VERIF_SEED (default 1), COV_JOBS (default and maximum 8), COV_LLVM_BIN (directory of llvm-cov/llvm-profdata).
# See tools/coverage.py for what is counted and how the quick-tier case counts are scaled.
set -e
cd "$(dirname "$0")/.."
ROOT=$(pwd)
MODE=${1:-run}
export CARGO_NET_OFFLINE=true
JOBS=${COV_JOBS:-8}
[ "$JOBS" -gt 8 ] && JOBS=8
export COV_JOBS=$JOBS
if [ -z "$COV_LLVM_BIN" ]; then
  SYSROOT=$(rustc +nightly --print sysroot)
  HOST=$(rustc +nightly -vV | sed -n 's/^host: //p')
  COV_LLVM_BIN="$SYSROOT/lib/rustlib/$HOST/bin"
fi
export COV_LLVM_BIN
for t in llvm-profdata llvm-cov; do
  [ -x "$COV_LLVM_BIN/$t" ] || { echo "coverage: $COV_LLVM_BIN/$t not found (nightly llvm-tools component)"; exit 2; }
done
mkdir -p work/cov
if [ "$MODE" = run ]; then
  [ -f harness/Cargo.lock ] || cp /repo/Cargo.lock harness/
  echo "coverage: instrumented build -> harness/target-cov"
  # LLVM_PROFILE_FILE=/dev/null: the build scripts (smoltcp's build.rs runs with cwd=/repo) are instrumented too and
  # would otherwise drop default_*.profraw files into /repo's working tree
  ( cd harness && LLVM_PROFILE_FILE=/dev/null CARGO_TARGET_DIR="$ROOT/harness/target-cov" RUSTFLAGS="-C instrument-coverage" \
      cargo +nightly build --offline --quiet --bins -j "$JOBS" ) > work/cov/build.log 2>&1 \
    || { tail -30 work/cov/build.log; echo "coverage: instrumented build failed"; exit 1; }
fi
exec python3 tools/coverage.py "$MODE"
