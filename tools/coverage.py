#!/usr/bin/env python3
"""Measure which part of /repo/src the correspondence streams and oracles execute.

Called by tools/coverage.sh after the instrumented build (`-C instrument-coverage`, nightly) of the
harness crate in harness/target-cov.  For every stream and oracle of every checks/C*.json (fragments
included, same merge rule as ./check) it runs the IMPLEMENTATION side only:

  stream  : corpus/<Cxx>/<stream>-*.case | h_x <run_args>       and   h_x <gen_args> seed n quick | h_x <run_args>
  oracle  : corpus replay through <replay_sub> (when ./check does it) and h_x <sub> seed n quick

with the seeds / shard counts of ./check at VERIF_SEED (default 1) and the QUICK tier case counts divided by
SCALE[...] where the instrumented run would take more than about a minute.  Only what the `run`/oracle
processes execute is counted: the profile of the `gen` process is discarded (a generator may call
smoltcp's emit functions to build its inputs, but nothing compares what they do).

Identical jobs of several properties (the `tcp` stream is shared by C01 C02 C04 C05 C17, `ingress` by C10 C11)
run once and are attributed to all of them.  Profiles are merged per job, per property and globally
(llvm-profdata), and `llvm-cov export` restricted to /repo/src produces
  evidence/coverage.json      (per file, per property, largest never-executed functions)
  DESIGN.md                   (between <!-- BEGIN:COVERAGE --> and <!-- END:COVERAGE -->)
Everything else is written below work/cov/.

  tools/coverage.py run        run all jobs, merge, report        (what coverage.sh does)
  tools/coverage.py report     only re-generate the two outputs from the profiles in work/cov/prof
"""
import concurrent.futures as cf
import glob, json, os, re, shutil, subprocess, sys, time

ROOT = os.path.dirname(os.path.dirname(os.path.abspath(__file__)))
REPO = os.environ.get('VERIF_REPO', '/repo')
SRC = os.path.join(REPO, 'src')
TDIR = os.path.join(ROOT, 'harness', 'target-cov')
BIN = os.path.join(TDIR, 'debug')
WORK = os.path.join(ROOT, 'work', 'cov')
LLVM = os.environ.get('COV_LLVM_BIN') or os.path.expanduser(
    '~/.rustup/toolchains/nightly-x86_64-unknown-linux-gnu/lib/rustlib/x86_64-unknown-linux-gnu/bin')
JOBS = min(8, int(os.environ.get('COV_JOBS', '8')))
SEED = int(os.environ.get('VERIF_SEED', '1') or 1)
TIER = 'quick'

# quick-tier case counts are divided by these factors (job label -> divisor): measured so that no job needs
# more than ~60 s of wall time on 8 workers with the instrumented (opt-level 1) binaries.
SCALE = {
    # full quick tier: 1094 / 1494 / 837 / 1512 CPU-seconds instrumented (two real endpoints, ~2900 polls per schedule);
    # compared once (2026-09-26) with the unscaled quick tier: identical global line/function/region totals and identical
    # never-executed blocks; the per-property line counts of C01 C02 C03 C05 are 1-10 lines lower
    'oracle:h_tcpsim:oracle-c01': 3,
    'oracle:h_tcpsim:oracle-c02': 4,
    'oracle:h_tcpsim:oracle-c03': 2,
    'oracle:h_tcpsim:oracle-c05': 4,
}

# files left out of every denominator (assignment): devices / middleware that need an OS or wrap another
# device, feature-gated wire types.  `compiled` is filled in at run time (feature-gated files are not even built).
EXCLUDE = [
    ('src/phy/raw_socket.rs', 'phy device on a raw OS socket (feature phy-raw_socket, not built)'),
    ('src/phy/tuntap_interface.rs', 'phy device on a TUN/TAP fd (feature phy-tuntap_interface, not built)'),
    ('src/phy/sys/', 'libc glue of the two OS devices (not built)'),
    ('src/phy/pcap_writer.rs', 'phy middleware: pcap dump'),
    ('src/phy/fault_injector.rs', 'phy middleware: fault injection for the examples'),
    ('src/phy/fuzz_injector.rs', 'phy middleware: fuzz injection'),
    ('src/phy/tracer.rs', 'phy middleware: frame tracer'),
    ('src/phy/loopback.rs', 'phy device: in-memory loopback (the harness uses its own queue device)'),
    ('src/wire/rpl.rs', 'RPL wire types (feature proto-rpl, not built)'),
    ('src/wire/ipsec_ah.rs', 'IPsec AH (feature proto-ipsec-ah, not built)'),
    ('src/wire/ipsec_esp.rs', 'IPsec ESP (feature proto-ipsec-esp, not built)'),
    ('src/iface/rpl/', 'RPL routing (feature proto-rpl, not built)'),
]

# which properties talk about which source file (DESIGN.md section 2 layer table and section 8); used only
# to decide whether a never-executed function is a GAP (some property models that file) or merely unclaimed code.
FILE_PROPS = [
    (r'^src/storage/assembler\.rs$', 'C15'),
    (r'^src/storage/(ring_buffer|packet_buffer)\.rs$', 'C14'),
    (r'^src/socket/tcp\.rs$', 'C01 C02 C04 C05 C13 C17'),
    (r'^src/socket/tcp/congestion', 'C02 C05'),
    (r'^src/socket/(udp|icmp|raw)\.rs$', 'C09'),
    (r'^src/socket/dhcpv4\.rs$', 'C18'),
    (r'^src/socket/dns\.rs$', 'C19'),
    (r'^src/wire/dns\.rs$', 'C19'),
    (r'^src/wire/dhcpv4\.rs$', 'C06 C07 C18'),
    (r'^src/wire/sixlowpan/', 'C20 C06 C07'),
    (r'^src/wire/ieee802154\.rs$', 'C06 C07 C20'),
    (r'^src/wire/pretty_print\.rs$', 'C07'),
    (r'^src/wire/ip\.rs$', 'C06 C07 C08'),
    (r'^src/wire/(arp|ethernet|icmp|icmpv4|icmpv6|igmp|ipv4|ipv6|ipv6ext_header|ipv6fragment|ipv6hbh|ipv6option|'
     r'ipv6routing|mld|ndisc|ndiscoption|tcp|udp|mod)\.rs$', 'C06 C07'),
    (r'^src/iface/fragmentation\.rs$', 'C12 C20'),
    (r'^src/iface/interface/ipv4\.rs$', 'C10 C11 C12 C03'),
    (r'^src/iface/interface/(sixlowpan|ieee802154)\.rs$', 'C20 C10 C03'),
    (r'^src/iface/interface/', 'C03 C10 C11 C13 C16'),
    (r'^src/iface/(neighbor|route)\.rs$', 'C16'),
    (r'^src/iface/socket_meta\.rs$', 'C16 C13'),
    (r'^src/iface/(packet|socket_set)\.rs$', 'C03 C10'),
    (r'^src/iface/slaac\.rs$', 'C13'),
]


def rel(p):
    return os.path.relpath(p, REPO) if p.startswith(REPO + '/') else p


def excluded(relpath):
    for pre, why in EXCLUDE:
        if relpath == pre or (pre.endswith('/') and relpath.startswith(pre)):
            return why
    return None


def file_props(relpath):
    for pat, props in FILE_PROPS:
        if re.search(pat, relpath):
            return props.split()
    return []


# ------------------------------------------------------------------------------------------------ jobs

def load_props():
    """property id -> merged config (base file + fragments, list keys appended: the rule of ./check)"""
    props = {}
    for f in sorted(glob.glob(os.path.join(ROOT, 'checks', 'C[0-9][0-9].json'))):
        cid = os.path.basename(f)[:-5]
        cfg = json.load(open(f))
        for frag in sorted(glob.glob(os.path.join(ROOT, 'checks', cid + '.*.json'))):
            for k, v in json.load(open(frag)).items():
                if isinstance(v, list):
                    cfg[k] = cfg.get(k, []) + v
        props[cid] = cfg
    return props


def tier_ok(e):
    return TIER in e.get('tiers', ['quick', 'thorough'])


class Job:
    def __init__(self, jid, kind, label, harness):
        self.id, self.kind, self.label, self.harness = jid, kind, label, harness
        self.props = set()
        self.tasks = []      # list of (gen_cmd or None, stdin_file or None, run_cmd)
        self.cases = 0
        self.full_cases = 0
        self.wall = 0.0
        self.failed = []


def plan(props):
    jobs = {}

    def job(key, kind, label, harness):
        if key not in jobs:
            jobs[key] = Job('j%03d' % len(jobs), kind, label, harness)
        return jobs[key]

    skipped = []
    for cid, cfg in props.items():
        streams = cfg.get('streams', [])
        for st in streams:
            if not tier_ok(st) or st.get('target_dir'):
                skipped.append('%s stream %s (%s)' % (cid, st['name'], st.get('target_dir', 'thorough only')))
                continue
            h = st['harness']
            gen, run = st.get('gen_args', ['gen']), st.get('run_args', ['run'])
            # corpus through the runner
            files = sorted(glob.glob(os.path.join(ROOT, 'corpus', cid, st['name'] + '-*.case')))
            if files:
                j = job(('corpus', cid, h, tuple(run), st['name']), 'corpus', '%s:corpus:%s' % (cid, st['name']), h)
                j.props.add(cid)
                if not j.tasks:
                    j.tasks = [(None, f, [h] + run) for f in files]
                    j.cases = j.full_cases = len(files)
            t = st.get(TIER, {})
            n, shards = t.get('cases', 1000), t.get('shards', 8)
            label = 'stream:%s:%s' % (h, ' '.join(gen))
            j = job(('stream', h, tuple(gen), tuple(run), n, shards), 'stream', label, h)
            j.props.add(cid)
            if not j.tasks:
                per = max(1, max(1, n // shards) // SCALE.get(label, 1))
                j.tasks = [([h] + gen + [str(SEED * 1000 + k), str(per), TIER], None, [h] + run) for k in range(shards)]
                j.cases, j.full_cases = per * shards, max(1, n // shards) * shards
        for o in cfg.get('oracles', []):
            if not tier_ok(o) or o.get('target_dir'):
                skipped.append('%s oracle %s (%s)' % (cid, o.get('name'), o.get('target_dir', 'thorough only')))
                continue
            h = o['harness']
            if o.get('replay_sub') and o.get('stream'):
                files = sorted(glob.glob(os.path.join(ROOT, 'corpus', cid, o['stream'] + '-*.case')))
                if any(s['name'] == o['stream'] for s in streams) and not o.get('corpus', True):
                    files = []
                if files:
                    j = job(('ocorpus', cid, h, o['replay_sub'], o['stream']), 'oracle-corpus',
                            '%s:oracle-corpus:%s:%s' % (cid, h, o['replay_sub']), h)
                    j.props.add(cid)
                    if not j.tasks:
                        j.tasks = [(None, f, [h, o['replay_sub']]) for f in files]
                        j.cases = j.full_cases = len(files)
            t = o.get(TIER, {})
            n, shards = t.get('cases', 1000), t.get('shards', 8)
            sub = o.get('sub', 'oracle')
            label = 'oracle:%s:%s' % (h, sub)
            j = job(('oracle', h, sub, n, shards), 'oracle', label, h)
            j.props.add(cid)
            if not j.tasks:
                per = max(1, max(1, n // shards) // SCALE.get(label, 1))
                j.tasks = [(None, None, [h, sub, str(SEED * 1000 + k), str(per), TIER]) for k in range(shards)]
                j.cases, j.full_cases = per * shards, max(1, n // shards) * shards
    return list(jobs.values()), skipped


def run_task(job, task):
    gen, infile, run = task
    rawdir = os.path.join(WORK, 'raw', job.id)
    env_run = dict(os.environ, LLVM_PROFILE_FILE=os.path.join(rawdir, '%m.profraw'))   # %m: online merge per binary
    env_gen = dict(os.environ, LLVM_PROFILE_FILE='/dev/null')
    t0 = time.time()
    run = [os.path.join(BIN, run[0])] + run[1:]
    err = None
    try:
        if gen:
            gen = [os.path.join(BIN, gen[0])] + gen[1:]
            p1 = subprocess.Popen(gen, stdout=subprocess.PIPE, stderr=subprocess.DEVNULL, env=env_gen)
            p2 = subprocess.Popen(run, stdin=p1.stdout, stdout=subprocess.DEVNULL, stderr=subprocess.DEVNULL, env=env_run)
            p1.stdout.close()
            rc2 = p2.wait(timeout=1800)
            rc1 = p1.wait(timeout=60)
            if rc1 or rc2:
                err = 'rc gen=%s run=%s: %s' % (rc1, rc2, ' '.join(gen[1:]))
        else:
            if infile:
                body = '\n'.join(l for l in open(infile).read().splitlines() if not l.startswith('#')) + '\n'
                r = subprocess.run(run, input=body, text=True, stdout=subprocess.DEVNULL, stderr=subprocess.DEVNULL,
                                   env=env_run, timeout=1800)
            else:
                r = subprocess.run(run, stdin=subprocess.DEVNULL, stdout=subprocess.DEVNULL, stderr=subprocess.DEVNULL,
                                   env=env_run, timeout=1800)
            # oracles exit non-zero when they report a (known) finding: that is not a failure of the measurement
            if r.returncode < 0 or r.returncode in (101, 134):
                err = 'rc=%s: %s' % (r.returncode, ' '.join(run[1:] + ([os.path.basename(infile)] if infile else [])))
    except subprocess.TimeoutExpired:
        err = 'timeout: ' + ' '.join(run[1:])
    return job, time.time() - t0, err


def llvm(tool, args, **kw):
    return subprocess.run([os.path.join(LLVM, tool)] + args, check=True, **kw)


def merge(inputs, out):
    lst = out + '.inputs'
    open(lst, 'w').write('\n'.join(inputs) + '\n')
    llvm('llvm-profdata', ['merge', '-sparse', '-f', lst, '-o', out])
    os.remove(lst)


def do_run():
    props = load_props()
    jobs, skipped = plan(props)
    for d in ('raw', 'prof'):
        shutil.rmtree(os.path.join(WORK, d), ignore_errors=True)
        os.makedirs(os.path.join(WORK, d))
    for j in jobs:
        os.makedirs(os.path.join(WORK, 'raw', j.id))
    missing = sorted({j.harness for j in jobs if not os.path.exists(os.path.join(BIN, j.harness))})
    if missing:
        sys.exit('coverage: instrumented binaries missing in %s: %s' % (BIN, ' '.join(missing)))
    tasks = [(j, t) for j in jobs for t in j.tasks]
    print('coverage: %d jobs, %d processes, %d workers' % (len(jobs), len(tasks), JOBS), flush=True)
    t0 = time.time()
    with cf.ThreadPoolExecutor(max_workers=JOBS) as ex:
        for n, (j, dt, err) in enumerate(ex.map(lambda jt: run_task(*jt), tasks)):
            j.wall += dt
            if err:
                j.failed.append(err)
    print('coverage: runs done in %.0f s' % (time.time() - t0), flush=True)
    meta = {'seed': SEED, 'tier': TIER, 'jobs': [], 'skipped': skipped, 'run_wall_s': round(time.time() - t0, 1)}
    for j in jobs:
        raws = sorted(glob.glob(os.path.join(WORK, 'raw', j.id, '*.profraw')))
        prof = None
        if raws:
            prof = os.path.join(WORK, 'prof', j.id + '.profdata')
            merge(raws, prof)
        else:
            j.failed.append('no profile written')
        meta['jobs'].append({'id': j.id, 'kind': j.kind, 'label': j.label, 'harness': j.harness, 'properties': sorted(j.props),
                             'cases': j.cases, 'quick_tier_cases': j.full_cases, 'processes': len(j.tasks),
                             'cpu_wall_s': round(j.wall, 1), 'problems': j.failed, 'profile': prof and os.path.basename(prof)})
        print('  %-7s %-52s %-24s cases %7d/%-7d %6.1f s%s' % (j.id, j.label, ','.join(sorted(j.props)), j.cases, j.full_cases, j.wall,
                                                               '  PROBLEMS: ' + '; '.join(j.failed) if j.failed else ''), flush=True)
    shutil.rmtree(os.path.join(WORK, 'raw'), ignore_errors=True)
    json.dump(meta, open(os.path.join(WORK, 'jobs.json'), 'w'), indent=1)
    do_report()


# ---------------------------------------------------------------------------------------------- report

def export(profdata, harnesses, summary_only):
    hs = sorted(harnesses)
    # llvm-cov: first object positional, the others with -object, then the source filter
    args = ['export', '-format=text', '-instr-profile=' + profdata] + (['-summary-only'] if summary_only else []) + \
           [os.path.join(BIN, hs[0])] + sum([['-object', os.path.join(BIN, h)] for h in hs[1:]], []) + [SRC]
    r = llvm('llvm-cov', args, stdout=subprocess.PIPE, stderr=subprocess.DEVNULL)
    return json.loads(r.stdout)['data'][0]


def demangle(names):
    for tool in ('llvm-cxxfilt', os.path.join(LLVM, 'llvm-cxxfilt'), 'rustfilt', 'c++filt'):
        try:
            r = subprocess.run([tool], input='\n'.join(names) + '\n', capture_output=True, text=True, check=True)
            out = r.stdout.splitlines()
            if len(out) == len(names) and any(a != b for a, b in zip(out, names)):
                return out
        except Exception:
            pass
    return list(names)


def tidy(name):
    """demangled v0 name -> shorter: drop the crate hash and the instantiation's type arguments"""
    name = re.sub(r'\[[0-9a-f]{16}\]', '', name)
    name = name.replace('smoltcp::', '')
    # instantiation arguments `::<…>` at the end and concrete buffer types are noise for the report
    name = re.sub(r'<(&mut \[u8\]|&\[u8\]|_)>', '<T>', name)
    # strip every `::<…>` instantiation argument list (balanced)
    out, i = [], 0
    while i < len(name):
        if name.startswith('::<', i):
            depth, j = 0, i + 2
            while j < len(name):
                if name[j] == '<':
                    depth += 1
                elif name[j] == '>' and name[j - 1] != '-':
                    depth -= 1
                    if depth == 0:
                        break
                j += 1
            i = j + 1
        else:
            out.append(name[i])
            i += 1
    name = ''.join(out)
    return name


def cfg_test_ranges(path):
    """line ranges of `#[cfg(test)]` items (brace matched, good enough for smoltcp's `mod test { … }` blocks)"""
    try:
        lines = open(path, errors='replace').read().split('\n')
    except OSError:
        return []
    out, i = [], 0
    while i < len(lines):
        if re.match(r'\s*#\[cfg\((all\()?test\b', lines[i]):
            depth, j, seen = 0, i + 1, False
            while j < len(lines):
                code = re.sub(r'//.*', '', lines[j])
                code = re.sub(r'"(\\.|[^"\\])*"', '""', code)
                code = re.sub(r"'(\\.|[^'\\])'", "''", code)
                depth += code.count('{') - code.count('}')
                if '{' in code:
                    seen = True
                if (seen and depth <= 0) or (not seen and code.rstrip().endswith(';')):
                    break
                j += 1
            out.append((i + 1, j + 1))
            i = j + 1
        else:
            i += 1
    return out


WHY_RULES = [
    # (regex on the tidy name, regex on the file or None, tag); first match wins.  What no rule explains is a GAP when
    # the file is modelled by some property (FILE_PROPS) and `unclaimed` otherwise.
    (r'as core::fmt::(Display|Debug|LowerHex|UpperHex)>::fmt|::fmt::\{closure', None,
     'expected: Display/Debug impl (diagnostics only; no property is about log text)'),
    (r'as defmt::', None, 'expected: defmt (feature not built)'),
    (r'as core::str::traits::FromStr>', None, 'expected: text parsers (FromStr), used by examples/tests only'),
    (r'.', r'^src/parsers\.rs$', 'expected: text parsers (FromStr), used by examples/tests only'),
    (r'as core::fmt::Write>::write_str', None, 'unclaimed: `write!` adapter over send_slice (API convenience)'),
    (r'as core::(ops|cmp|convert|hash|default|clone|iter)', None,
     'expected: operator/conversion trait impl the stack itself never needs'),
    (r'.', r'^src/time\.rs$', 'expected: Instant/Duration convenience API the stack itself never calls'),
    (r'.', r'^src/socket/waker\.rs$', 'expected: async waker registration (feature async; no property)'),
    (r'register_\w*waker', None, 'expected: async waker registration (feature async; no property)'),
    (r'wire::tcp::Packet<T>>::set_(urg|ece|cwr|ns)$', None,
     'expected: header-flag setters `TcpRepr::emit` never uses (the Repr has no URG/ECE/CWR/NS field)'),
    (r'(Cidr>::(contains_subnet|from_netmask)|AddressExt>::prefix_len|wire::ip::Address>::v6|ethernet::Address>::is_local|'
     r'HardwareAddress>::is_broadcast|RawHardwareAddress>::is_empty|icmpv6::Message>::is_error|ListenEndpoint>::is_specified)$', None,
     'unclaimed: address/CIDR helper of the public API that the stack itself never calls'),
    (r'^<wire::ip::Packet<T>>::|^<wire::ip::Repr>::parse$', None,
     'expected: `wire::ip::Packet` is not exported (`pub(crate) mod ip`, no `IpPacket` re-export), so neither it nor '
     '`IpRepr::parse` (which takes it) can be called from outside the crate, and the crate itself only does so in its tests'),
    (r'socket::Socket as socket::AnySocket>', None, 'unclaimed: AnySocket identity casts for the `Socket` enum itself'),
]


def why(e):
    name, relpath = e['name'], e['file']
    for nrx, frx, tag in WHY_RULES:
        if re.search(nrx, name) and (frx is None or re.search(frx, relpath)):
            return tag
    try:
        src = open(os.path.join(REPO, relpath), errors='replace').read().split('\n')
        head = ' '.join(src[max(0, e['start'] - 2):e['start']])
    except OSError:
        head = ''
    if re.search(r'\bconst fn\b', head) and re.search(r'::new$', name):
        return 'expected: `const fn` constructor evaluated at compile time in this build (no runtime counter)'
    props = file_props(relpath)
    if e['end'] - e['start'] <= 2:      # `fn f(..) -> T {` / one expression / `}`
        return 'accessor: one-expression getter/`into_inner` no harness calls' + (' (file of ' + ' '.join(props) + ')' if props else '')
    if props:
        return 'GAP (' + ' '.join(props) + ')'
    return 'unclaimed: no property talks about this file'


def line_counts(profdata, harnesses):
    """file -> {line: count} from the lcov export (llvm-cov's own line-count rule)"""
    hs = sorted(harnesses)
    args = ['export', '-format=lcov', '-instr-profile=' + profdata, os.path.join(BIN, hs[0])] + \
        sum([['-object', os.path.join(BIN, h)] for h in hs[1:]], []) + [SRC]
    r = llvm('llvm-cov', args, stdout=subprocess.PIPE, stderr=subprocess.DEVNULL, text=True)
    out, cur = {}, None
    for l in r.stdout.splitlines():
        if l.startswith('SF:'):
            cur = out.setdefault(rel(l[3:]), {})
        elif l.startswith('DA:') and cur is not None:
            a, b = l[3:].split(',')[:2]
            cur[int(a)] = max(cur.get(int(a), 0), int(b))
    return out


LOGRX = re.compile(r'\b(net_debug|net_trace|net_log|tcp_trace)!\(')


def block_kind(src, b):
    """why a never-executed block is (un)interesting: defensive | logging | fuzzing-shortcut | branch"""
    a, z = b['lines']
    text = '\n'.join(src[a - 1:z])
    if re.search(r'\b(unreachable|panic|todo|unimplemented)!\(', text):
        return 'defensive'          # unreachable!/panic!/todo! arm
    if 'as core::fmt::' in b['function'] or re.search(r'\bwrite!\(f\b', text):
        return 'logging'            # Display/Debug text
    if LOGRX.search(text) and z - a <= 3:
        return 'logging'
    # argument lines of a multi-line log macro: walk back to the start of the statement
    i = a - 2
    while i >= 0 and a - 1 - i <= 12:
        t = src[i].strip()
        if LOGRX.search(t):
            return 'logging'
        if t.endswith((';', '{', '}')):
            break
        i -= 1
    if re.search(r'verify_(partial_)?checksum', b['function']) and text.strip() == 'return true;':
        return 'fuzzing-shortcut'   # `if cfg!(fuzzing) { return true; }`
    return 'branch'


def uncovered_blocks(lines, fns):
    """maximal runs of instrumented lines with count 0 that lie inside an EXECUTED function"""
    blocks = []
    for r, lc in lines.items():
        if excluded(r):
            continue
        ex = sorted([(e['start'], e['end'], e) for e in fns.values() if e['file'] == r and e['count'] > 0],
                    key=lambda t: (t[0], -t[1]))
        dead = [(e['start'], e['end']) for e in fns.values() if e['file'] == r and e['count'] == 0]
        run = []
        for ln in sorted(lc) + [None]:
            if ln is not None and lc[ln] == 0 and not any(a <= ln <= b for a, b in dead):
                run.append(ln)
                continue
            if run:
                # innermost executed function containing the first line
                host = None
                for a, b, e in ex:
                    if a <= run[0] <= b and (host is None or (b - a) < (host['end'] - host['start'])):
                        host = e
                if host is not None:
                    blocks.append({'file': r, 'lines': [run[0], run[-1]], 'n': len(run), 'in': host})
                run = []
    blocks.sort(key=lambda b: (-b['n'], b['file'], b['lines'][0]))
    return blocks


def do_report():
    meta = json.load(open(os.path.join(WORK, 'jobs.json')))
    jobs = [j for j in meta['jobs'] if j['profile']]
    prof = lambda j: os.path.join(WORK, 'prof', j['profile'])
    allprof = os.path.join(WORK, 'all.profdata')
    merge([prof(j) for j in jobs], allprof)
    harnesses = sorted({j['harness'] for j in jobs})
    data = export(allprof, harnesses, False)
    llvm('llvm-cov', ['report', '-instr-profile=' + allprof, os.path.join(BIN, harnesses[0])] +
         sum([['-object', os.path.join(BIN, h)] for h in harnesses[1:]], []) + [SRC],
         stdout=open(os.path.join(WORK, 'report.txt'), 'w'), stderr=subprocess.DEVNULL)

    # ---- per file
    files, excl = {}, {}
    for f in data['files']:
        r = rel(f['filename'])
        s = f['summary']
        row = {k: {'covered': s[k]['covered'], 'total': s[k]['count']} for k in ('lines', 'regions', 'functions')}
        w = excluded(r)
        if w:
            excl[r] = dict(row, why=w)
        else:
            files[r] = row
    # cfg(test) code is not compiled into the (non-test) dependency build: check that no region lies in it
    test_lines, test_leak = 0, []
    tr_cache = {}
    for r in list(files) + list(excl):
        tr_cache[r] = cfg_test_ranges(os.path.join(REPO, r))
        test_lines += sum(b - a + 1 for a, b in tr_cache[r])

    # ---- functions: group instantiations by source position
    fns = {}
    for fn in data['functions']:
        fname = fn['filenames'][0]
        if not fname.startswith(SRC + '/'):
            continue
        regs = [x for x in fn['regions'] if x[5] == 0 and x[7] == 0]
        if not regs:
            continue
        r = rel(fname)
        key = (r, regs[0][0], regs[0][1])
        e = fns.setdefault(key, {'file': r, 'start': regs[0][0], 'end': max(x[2] for x in regs), 'count': 0, 'names': set(),
                                 'nregions': len(regs)})
        e['count'] += fn['count']
        e['end'] = max(e['end'], max(x[2] for x in regs))
        e['names'].add(fn['name'])
    for (r, a, _), e in fns.items():
        if any(lo <= a <= hi for lo, hi in tr_cache.get(r, [])):
            test_leak.append('%s:%d' % (r, a))
    unc = [e for e in fns.values() if e['count'] == 0 and not excluded(e['file'])]
    dm = demangle([sorted(e['names'])[0] for e in unc])
    for e, n in zip(unc, dm):
        e['name'] = tidy(n)
    # drop closures / nested items that lie inside another never-executed function (they would be listed twice)
    byfile = {}
    for e in unc:
        byfile.setdefault(e['file'], []).append(e)
    top = []
    for r, es in byfile.items():
        for e in es:
            if any(o is not e and o['start'] <= e['start'] and e['end'] <= o['end'] and (o['start'], o['end']) != (e['start'], e['end'])
                   for o in es):
                continue
            top.append(e)
    for e in top:
        e['span'] = e['end'] - e['start'] + 1
        e['why'] = why(e)
    top.sort(key=lambda e: (-e['span'], e['file'], e['start']))

    # ---- never-executed blocks inside executed functions
    blocks = uncovered_blocks(line_counts(allprof, harnesses), fns)
    hosts = {id(b['in']): b['in'] for b in blocks[:400]}
    for e, n in zip(hosts.values(), demangle([sorted(e['names'])[0] for e in hosts.values()])):
        e['name'] = tidy(n)
    for b in blocks:
        h = b.pop('in')
        b['function'] = h.get('name', '?')
        b['claimed_by'] = file_props(b['file'])
        try:
            src = open(os.path.join(REPO, b['file']), errors='replace').read().split('\n')
        except OSError:
            src = []
        b['first_line'] = src[b['lines'][0] - 1].strip()[:110] if src else ''
        b['kind'] = block_kind(src, b)

    # ---- per property
    propfiles, propsum = {}, {}
    allprops = sorted({p for j in jobs for p in j['properties']})
    os.makedirs(os.path.join(WORK, 'prop'), exist_ok=True)

    def one_prop(cid):
        js = [j for j in jobs if cid in j['properties']]
        pd = os.path.join(WORK, 'prop', cid + '.profdata')
        merge([prof(j) for j in js], pd)
        d = export(pd, {j['harness'] for j in js}, True)
        touched, cl, tl = {}, 0, 0
        for f in d['files']:
            r = rel(f['filename'])
            if excluded(r):
                continue
            c = f['summary']['lines']['covered']
            cl += c
            if c:
                touched[r] = {'lines_covered': c, 'lines_total': f['summary']['lines']['count'],
                              'functions_covered': f['summary']['functions']['covered']}
        return cid, touched, cl, js

    with cf.ThreadPoolExecutor(max_workers=JOBS) as ex:
        for cid, touched, cl, js in ex.map(one_prop, allprops):
            propfiles[cid] = touched
            propsum[cid] = {'lines_covered': cl, 'files_touched': len(touched), 'harnesses': sorted({j['harness'] for j in js}),
                            'jobs': [j['label'] for j in js]}

    tot = {k: {'covered': sum(f[k]['covered'] for f in files.values()), 'total': sum(f[k]['total'] for f in files.values())}
           for k in ('lines', 'regions', 'functions')}
    for k in tot:
        tot[k]['percent'] = round(100.0 * tot[k]['covered'] / max(1, tot[k]['total']), 2)
    file_by_props = {r: sorted(c for c in allprops if r in propfiles[c]) for r in files}
    try:
        repo_head = subprocess.run(['git', '-C', REPO, 'rev-parse', '--short', 'HEAD'], capture_output=True, text=True).stdout.strip()
    except Exception:
        repo_head = '?'
    exclusions = []
    for pre, w in EXCLUDE:
        hit = {r: v for r, v in excl.items() if r == pre or (pre.endswith('/') and r.startswith(pre))}
        exclusions.append({'path': pre, 'why': w, 'compiled': bool(hit),
                           'lines_total': sum(v['lines']['total'] for v in hit.values()),
                           'lines_covered': sum(v['lines']['covered'] for v in hit.values())})
    out = {
        'tool': 'tools/coverage.sh', 'repo_head': repo_head, 'seed': meta['seed'], 'tier': 'quick (scaled, see jobs[].cases)',
        'what_is_counted': 'regions of /repo/src executed by the implementation-side processes of ./check (stream runners on corpus + '
                           'generated cases, oracle sub-commands and their corpus replays); generator processes are not counted; '
                           'instrumented build: nightly -C instrument-coverage, harness dev profile (opt-level 1), smoltcp as a dependency',
        'totals_in_scope': tot,
        'exclusions': exclusions + [{'path': '#[cfg(test)] items', 'why': 'not compiled: smoltcp is built as a dependency, not as a test crate',
                                     'compiled': False, 'source_lines': test_lines, 'regions_found_inside': test_leak}],
        'skipped_entries': meta['skipped'],
        'files': {r: dict(files[r], lines_percent=round(100.0 * files[r]['lines']['covered'] / max(1, files[r]['lines']['total']), 1),
                          properties=file_by_props[r], claimed_by=file_props(r)) for r in sorted(files)},
        'properties': {c: dict(propsum[c], files=propfiles[c]) for c in allprops},
        'never_executed_functions_total': len(top),
        'never_executed_functions_largest': [{'name': e['name'], 'file': e['file'], 'lines': [e['start'], e['end']], 'why': e['why']}
                                              for e in top[:60]],
        'never_executed_blocks_in_executed_functions': {
            'total_blocks': len(blocks), 'total_lines': sum(b['n'] for b in blocks),
            'by_kind': {k: sum(1 for b in blocks if b['kind'] == k) for k in sorted({b['kind'] for b in blocks})},
            'largest_branch_blocks': [b for b in blocks if b['kind'] == 'branch'][:40]},
        'jobs': [{k: v for k, v in j.items() if k not in ('profile', 'cpu_wall_s')} for j in meta['jobs']],
    }
    os.makedirs(os.path.join(ROOT, 'evidence'), exist_ok=True)
    open(os.path.join(ROOT, 'evidence', 'coverage.json'), 'w').write(json.dumps(out, indent=1) + '\n')
    json.dump([{'name': e['name'], 'file': e['file'], 'lines': [e['start'], e['end']], 'why': e['why']} for e in top],
              open(os.path.join(WORK, 'uncovered_functions.json'), 'w'), indent=1)
    json.dump(blocks, open(os.path.join(WORK, 'uncovered_blocks.json'), 'w'), indent=1)
    write_design(out, top, blocks)
    print('coverage: in-scope lines %d/%d (%.1f%%), functions %d/%d (%.1f%%), regions %d/%d (%.1f%%); %d never-executed functions'
          % (tot['lines']['covered'], tot['lines']['total'], tot['lines']['percent'], tot['functions']['covered'], tot['functions']['total'],
             tot['functions']['percent'], tot['regions']['covered'], tot['regions']['total'], tot['regions']['percent'], len(top)))
    if test_leak:
        print('coverage: WARNING regions inside #[cfg(test)] items: ' + ' '.join(test_leak[:10]))


def write_design(out, top, blocks):
    t = out['totals_in_scope']
    L = []
    L.append('Generated by `tools/coverage.sh` (helper `tools/coverage.py`; /repo at `%s`, seed %d). The harness crate is built with '
             '`cargo +nightly build -C instrument-coverage` into `harness/target-cov`; every stream runner (corpus + generated cases) and '
             'every oracle sub-command of every `checks/C*.json` (fragments included; quick-tier entries, case counts scaled down where '
             'a job would exceed about a minute — exact counts in `evidence/coverage.json` `jobs`) is executed, the profiles are merged per '
             'property and globally, and `llvm-cov export` is restricted to `/repo/src`. Only the implementation side is measured (the '
             'generator processes are not counted). This is what the correspondence and the oracles *execute*, not what the theorems '
             'cover: a line can be executed without any observable depending on it.' % (out['repo_head'], out['seed']))
    L.append('')
    L.append('**In scope: %d of %d lines (%.1f %%), %d of %d functions (%.1f %%), %d of %d regions (%.1f %%) executed.**'
             % (t['lines']['covered'], t['lines']['total'], t['lines']['percent'], t['functions']['covered'], t['functions']['total'],
                t['functions']['percent'], t['regions']['covered'], t['regions']['total'], t['regions']['percent']))
    L.append('')
    L.append('Left out of the denominators: ' + '; '.join(
        '`%s` (%s%s)' % (e['path'], e['why'], (', %d lines' % e['lines_total']) if e.get('lines_total') else '') for e in out['exclusions']) + '.')
    if out['skipped_entries']:
        L.append('')
        L.append('Not run (thorough-only alternative builds): ' + '; '.join(out['skipped_entries']) + '.')
    L.append('')
    L.append('| file | lines | covered | % | functions | executed by the runs of | modelled by |')
    L.append('|---|---|---|---|---|---|---|')
    for r, f in out['files'].items():
        L.append('| `%s` | %d | %d | %.1f | %d/%d | %s | %s |' % (r, f['lines']['total'], f['lines']['covered'], f['lines_percent'],
                                                                 f['functions']['covered'], f['functions']['total'],
                                                                 ' '.join(f['properties']) or '—', ' '.join(f['claimed_by']) or '—'))
    L.append('')
    L.append('Per property (lines of in-scope source executed by its own streams + oracles): ' + '; '.join(
        '%s %d lines / %d files' % (c, p['lines_covered'], p['files_touched']) for c, p in out['properties'].items()) + '.')
    L.append('')
    nshow = 60
    L.append('### Never-executed functions')
    L.append('')
    L.append('%d functions of the in-scope files are never entered (closures inside a never-entered function are not listed separately). '
             'The %d largest, grouped by file (`lines a–b` = span of the function\'s code regions); the complete list is written to '
             '`work/cov/uncovered_functions.json`. `GAP (Cxx …)` = the file is modelled by those properties, so a stream or oracle of '
             'one of them should reach the function; `expected: …` = why nothing needs to; `accessor` = a one-expression getter (nothing to model, listed for completeness); '
             '`unclaimed` = no property talks about the file or the function.'
             % (len(top), min(nshow, len(top))))
    L.append('')
    show = top[:nshow]
    byf = {}
    for e in show:
        byf.setdefault(e['file'], []).append(e)
    for r in sorted(byf):
        rest = sum(1 for e in top if e['file'] == r) - len(byf[r])
        L.append('* `%s`%s' % (r, (' (+%d smaller ones)' % rest) if rest else ''))
        for e in sorted(byf[r], key=lambda e: e['start']):
            L.append('  * `%s` lines %d–%d — %s' % (e['name'], e['start'], e['end'], e['why']))
    others = {}
    for e in top[nshow:]:
        if e['file'] not in byf:
            others[e['file']] = others.get(e['file'], 0) + 1
    if others:
        L.append('* smaller never-executed functions only: ' + ', '.join('`%s` %d' % kv for kv in sorted(others.items())))
    # tag summary
    tags = {}
    for e in top:
        k = 'GAP' if e['why'].startswith('GAP') else e['why'].split(':')[0].split(' ')[0]
        tags[k] = tags.get(k, 0) + 1
    L.append('')
    L.append('All %d by tag: ' % len(top) + ', '.join('%s %d' % kv for kv in sorted(tags.items())) + '.')
    L.append('')
    L.append('### Largest never-executed blocks inside executed functions')
    L.append('')
    kinds = {}
    for b in blocks:
        kinds[b['kind']] = kinds.get(b['kind'], 0) + 1
    real = [b for b in blocks if b['kind'] == 'branch']
    L.append('%d runs of instrumented lines with count 0 (%d lines) lie inside functions that are entered: %s. `defensive` = an '
             '`unreachable!`/`panic!`/`todo!` arm, `logging` = `net_debug!`/`net_trace!` arguments (the log level is off) or Display text, '
             '`fuzzing-shortcut` = `if cfg!(fuzzing) { return true; }`, `branch` = real control flow no generator reaches. '
             'The 40 longest `branch` blocks (all blocks in `work/cov/uncovered_blocks.json`):'
             % (len(blocks), sum(b['n'] for b in blocks), ', '.join('%s %d' % kv for kv in sorted(kinds.items()))))
    L.append('')
    L.append('| file:lines | n | in function | modelled by | first line |')
    L.append('|---|---|---|---|---|')
    for b in real[:40]:
        L.append('| `%s:%d-%d` | %d | `%s` | %s | `%s` |' % (b['file'], b['lines'][0], b['lines'][1], b['n'], b['function'],
                                                          ' '.join(b['claimed_by']) or '—', b['first_line'].replace('|', '\\|').replace('`', "'")))
    text = '\n'.join(L)
    D = os.path.join(ROOT, 'DESIGN.md')
    s = open(D).read()
    a, b = '<!-- BEGIN:COVERAGE -->', '<!-- END:COVERAGE -->'
    if a not in s:
        sec = '## 14. Measured code coverage of the correspondence and oracle runs\n\n%s\n%s\n\n' % (a, b)
        m = re.search(r'(?m)^## Appendix A', s)
        s = s[:m.start()] + sec + s[m.start():] if m else s + '\n' + sec
    s = s[:s.index(a) + len(a)] + '\n' + text.rstrip() + '\n' + s[s.index(b):]
    open(D, 'w').write(s)


if __name__ == '__main__':
    mode = sys.argv[1] if len(sys.argv) > 1 else 'run'
    os.makedirs(WORK, exist_ok=True)
    if mode == 'run':
        do_run()
    elif mode == 'report':
        do_report()
    elif mode == 'plan':
        js, sk = plan(load_props())
        for j in js:
            print(j.id, j.kind, j.label, sorted(j.props), j.cases, j.full_cases, len(j.tasks))
        print('\n'.join('skipped: ' + s for s in sk))
    else:
        sys.exit(__doc__)
