#!/bin/sh
# Run checks against a MUTATED copy of /repo without touching /repo or /verif:
#   tools/mutcheck.sh <patch.diff> <Cxx> [<Cxx> ...]      (extra env: VERIF_TIER, VERIF_SEED)
# Creates /tmp/mut.<pid>/{repo (git worktree of /repo HEAD + patch), verif (copy of /verif incl. built .vo
# and OCaml drivers, harness retargeted at the worktree)}, runs ./check for each property there, prints
# the output, removes everything.  Exit status: 1 if any check reported a VIOLATION (= mutation caught).
set -u
PATCH=$(readlink -f "$1"); shift
D=/tmp/mut.$$
mkdir -p $D
cleanup() { git -C /repo worktree remove --force $D/repo >/dev/null 2>&1; rm -rf $D; git -C /repo worktree prune; }
trap cleanup EXIT INT TERM PIPE HUP
git -C /repo worktree add --detach $D/repo HEAD >/dev/null 2>&1 || { echo "worktree failed"; exit 2; }
(cd $D/repo && git apply "$PATCH") || { echo "patch does not apply"; exit 2; }
SRC=$(dirname "$(dirname "$(readlink -f "$0")")")
rsync -a --exclude .git --exclude work --exclude 'harness/target' --exclude 'evidence/replays' "$SRC"/ $D/verif/
sed -i "s|path = \"/repo\"|path = \"$D/repo\"|" $D/verif/harness/Cargo.toml
caught=0
for C in "$@"; do
  echo "=== mutcheck $C"
  (cd $D/verif && VERIF_REPO=$D/repo ./check $C --tier ${VERIF_TIER:-quick}) > $D/out.$C 2>&1
  rc=$?
  grep -E "VIOLATION|KNOWN-FINDING|PROBLEM|OK tier|FAIL tier" $D/out.$C | head -20
  for r in $(grep -o 'replay=[^ ]*' $D/out.$C | head -2 | cut -d= -f2); do echo "--- $r"; head -25 "$r"; done
  [ $rc -ne 0 ] && caught=1
done
exit $caught
