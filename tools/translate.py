#!/usr/bin/env python3
"""Translator: Rust sources of /repo -> coq/Gen/Consts.v and coq/Gen/WireFields.v.

Regenerated on every check run (files are rewritten only when their content changes, so
`make` re-checks exactly the proofs that depend on a changed value).  Deliberately small:
it reads *constants* and *wire field layouts*, never control flow.

 * every `const NAME: T = <expr>;` (outside `#[cfg(test)]` code) of the files in SOURCES whose
   expression is an integer literal, a `Duration::from_{secs,millis,micros}(lit)`, or simple
   integer arithmetic over literals  ->  `Definition <prefix>_NAME : Z := <value>.`
   (durations in microseconds, with a `_ms` twin in milliseconds);
 * every `mod field { ... }` block of src/wire/*.rs:  `pub const X: Field = a..b;` ->
   `Definition <prefix>_X : Z * Z := (a, b).`, `pub const X: usize = n;` -> `: Z := n.`,
   `pub const X: Rest = n..;` -> `: Z := n.`;
 * the defaults table of build.rs -> `cfg_<NAME>`.

It fails loudly (exit 2, message on stderr) if a REQUIRED name is not found: the check then
reports the tie as broken.
"""
import os, re, sys

REPO = sys.argv[1] if len(sys.argv) > 1 else '/repo'
OUT = sys.argv[2] if len(sys.argv) > 2 else os.path.join(os.path.dirname(os.path.abspath(__file__)), '..', 'coq', 'Gen')

# (prefix, path)
SOURCES = [
    ('tcp', 'src/socket/tcp.rs'),
    ('reno', 'src/socket/tcp/congestion/reno.rs'),
    ('cubic', 'src/socket/tcp/congestion/cubic.rs'),
    ('neigh', 'src/iface/neighbor.rs'),
    ('meta', 'src/iface/socket_meta.rs'),
    ('dns', 'src/socket/dns.rs'),
    ('dhcp', 'src/socket/dhcpv4.rs'),
    ('slaac', 'src/iface/slaac.rs'),
    ('frag', 'src/iface/fragmentation.rs'),
    ('ifsix', 'src/iface/interface/sixlowpan.rs'),
    ('ifmod', 'src/iface/interface/mod.rs'),
    ('ifv4', 'src/iface/interface/ipv4.rs'),
    ('ifv6', 'src/iface/interface/ipv6.rs'),
    ('wipv4', 'src/wire/ipv4.rs'),
    ('wipv6', 'src/wire/ipv6.rs'),
    ('wtcp', 'src/wire/tcp.rs'),
    ('wudp', 'src/wire/udp.rs'),
    ('wicmpv4', 'src/wire/icmpv4.rs'),
    ('wicmpv6', 'src/wire/icmpv6.rs'),
    ('wdhcp', 'src/wire/dhcpv4.rs'),
    ('wdns', 'src/wire/dns.rs'),
    ('weth', 'src/wire/ethernet.rs'),
    ('warp', 'src/wire/arp.rs'),
    ('wsix', 'src/wire/sixlowpan/mod.rs'),
    ('wiphc', 'src/wire/sixlowpan/iphc.rs'),
    ('wnhc', 'src/wire/sixlowpan/nhc.rs'),
    ('wsixfrag', 'src/wire/sixlowpan/frag.rs'),
    ('w154', 'src/wire/ieee802154.rs'),
    ('wip', 'src/wire/ip.rs'),
    ('wndisc', 'src/wire/ndisc.rs'),
    ('wndiscopt', 'src/wire/ndiscoption.rs'),
    ('wmld', 'src/wire/mld.rs'),
    ('wigmp', 'src/wire/igmp.rs'),
    ('wv6ext', 'src/wire/ipv6ext_header.rs'),
    ('wv6frag', 'src/wire/ipv6fragment.rs'),
    ('wv6hbh', 'src/wire/ipv6hbh.rs'),
    ('wv6opt', 'src/wire/ipv6option.rs'),
    ('wv6routing', 'src/wire/ipv6routing.rs'),
    ('phy', 'src/phy/mod.rs'),
    ('time', 'src/time.rs'),
    ('rand', 'src/rand.rs'),
]

# names some model or theorem depends on; extended as models are added
REQUIRED = [
    'cfg_ASSEMBLER_MAX_SEGMENT_COUNT',
    'tcp_CLOSE_DELAY', 'tcp_ACK_DELAY_DEFAULT', 'tcp_DEFAULT_MSS', 'tcp_MIN_REMOTE_MSS',
    'tcp_RTTE_INITIAL_RTO', 'tcp_RTTE_MIN_RTO', 'tcp_RTTE_MAX_RTO', 'tcp_RTTE_K', 'tcp_RTTE_MIN_MARGIN',
    'reno_DEFAULT_MSS', 'wtcp_HEADER_LEN',
    'neigh_SILENT_TIME', 'neigh_ENTRY_LIFETIME', 'meta_DISCOVERY_SILENT_TIME',
    'cfg_IFACE_NEIGHBOR_CACHE_COUNT', 'cfg_IFACE_MAX_ROUTE_COUNT',
    'dns_RETRANSMIT_DELAY', 'dns_MAX_RETRANSMIT_DELAY', 'dns_RETRANSMIT_TIMEOUT', 'dns_DNS_PORT',
    'dns_MDNS_DNS_PORT', 'wdns_CLASS_IN', 'cfg_DNS_MAX_NAME_SIZE', 'cfg_DNS_MAX_RESULT_COUNT', 'cfg_DNS_MAX_SERVER_COUNT',
    'dhcp_DEFAULT_LEASE_DURATION', 'dhcp_MAX_IPV4_HEADER_LEN', 'wudp_HEADER_LEN', 'wdhcp_SERVER_PORT', 'wdhcp_CLIENT_PORT',
    'wdhcp_MAX_DNS_SERVER_COUNT',
    'slaac_MAX_RTR_SOLICITATIONS', 'slaac_RTR_SOLICITATION_INTERVAL',
    'wipv4_MIN_MTU', 'wipv6_MIN_MTU',
    'wipv4_HEADER_LEN', 'phy_IPV4_FRAGMENT_PAYLOAD_ALIGNMENT',
    'cfg_FRAGMENTATION_BUFFER_SIZE', 'cfg_REASSEMBLY_BUFFER_COUNT',
    'wipv6_HEADER_LEN', 'wicmpv4_HEADER_END',
    'wtcp_HEADER_LEN', 'dns_MDNS_DNS_PORT',
    'cfg_IPV6_HBH_MAX_OPTIONS', 'wv6opt_DATA_LEN',
    'cubic_DEFAULT_MSS',
    'cfg_IFACE_MAX_MULTICAST_GROUP_COUNT', 'cfg_IFACE_MAX_ADDR_COUNT', 'rand_M', 'rand_A',
]

INT = r'(?:0x[0-9a-fA-F_]+|0b[01_]+|[0-9][0-9_]*)'


def strip_tests(src):
    """Drop everything from the first test module on (all files keep tests at the end)."""
    m = re.search(r'^#\[cfg\(test\)\]\s*\n\s*(pub\s+)?mod\s+\w+', src, re.M)
    return src[:m.start()] if m else src


def strip_comments(src):
    src = re.sub(r'/\*.*?\*/', '', src, flags=re.S)
    return re.sub(r'//[^\n]*', '', src)


def lit(s):
    s = s.replace('_', '')
    s = re.sub(r'(u8|u16|u32|u64|usize|i32|i64)$', '', s)
    if s.startswith('0x'):
        return int(s[2:], 16)
    if s.startswith('0b'):
        return int(s[2:], 2)
    return int(s)


def eval_int(expr, env):
    """integer literals, known names, + - * / << parentheses; None if anything else."""
    e = expr.strip()
    e = re.sub(r'\bas\s+(u8|u16|u32|u64|usize|i32|i64)\b', '', e)
    toks = re.findall(r'%s(?:u8|u16|u32|u64|usize|i32|i64)?|[A-Za-z_][A-Za-z_0-9:.]*|<<|>>|[-+*/()|&]' % INT, e)
    if ''.join(toks).replace(' ', '') != e.replace(' ', ''):
        return None
    py = []
    for t in toks:
        if re.fullmatch(r'%s(?:u8|u16|u32|u64|usize|i32|i64)?' % INT, t):
            py.append(str(lit(t)))
        elif t in ('<<', '>>', '+', '-', '*', '(', ')', '|', '&'):
            py.append(t)
        elif t == '/':
            py.append('//')
        else:
            key = t.replace('field::', 'field_').replace('.end', '__end').replace('.start', '__start')
            key = key.split('::')[-1]
            if key in env:
                py.append(str(env[key]))
            else:
                return None
    try:
        v = eval(' '.join(py), {'__builtins__': {}})
    except Exception:
        return None
    return v if isinstance(v, int) else None


def eval_const(ty, expr, env):
    """returns list of (suffix, value)"""
    expr = expr.strip()
    m = re.fullmatch(r'Duration::from_(secs|millis|micros)\(\s*(%s)\s*\)' % INT, expr)
    if m:
        mult = {'secs': 1000000, 'millis': 1000, 'micros': 1}[m.group(1)]
        us = lit(m.group(2)) * mult
        return [('', us), ('_ms', us // 1000)]
    if ty.strip() in ('Duration',):
        return []
    v = eval_int(expr, env)
    return [('', v)] if v is not None else []


def parse_fields(src):
    """mod field { ... } blocks (possibly nested / several): name -> value"""
    out = {}
    for m in re.finditer(r'mod\s+field\s*\{', src):
        depth, i = 1, m.end()
        while i < len(src) and depth:
            if src[i] == '{':
                depth += 1
            elif src[i] == '}':
                depth -= 1
            i += 1
        body = src[m.end():i - 1]
        for c in re.finditer(r'pub\s+const\s+(\w+)\s*:\s*(\w+)\s*=\s*([^;]+);', body):
            name, ty, ex = c.group(1), c.group(2), c.group(3).strip()
            if ty == 'Field':
                r = re.fullmatch(r'(.+?)\.\.(.+)', ex)
                if r:
                    env = {}
                    for k, v in out.items():
                        if isinstance(v, tuple):
                            env[k + '__start'], env[k + '__end'] = v
                        else:
                            env[k] = v
                    a, b = eval_int(r.group(1), env), eval_int(r.group(2), env)
                    if a is not None and b is not None:
                        out[name] = (a, b)
            elif ty == 'Rest':
                r = re.fullmatch(r'(.+?)\.\.', ex)
                if r:
                    env = {k + '__end': v[1] for k, v in out.items() if isinstance(v, tuple)}
                    a = eval_int(r.group(1), env)
                    if a is not None:
                        out[name] = a
            elif ty == 'usize':
                a = eval_int(ex, {})
                if a is not None:
                    out[name] = a
    return out


def main():
    consts, fields = [], []
    seen = set()
    for prefix, rel in SOURCES:
        path = os.path.join(REPO, rel)
        if not os.path.exists(path):
            continue
        src = strip_comments(strip_tests(open(path).read()))
        fl = parse_fields(src)
        for k, v in fl.items():
            nm = '%s_f_%s' % (prefix, k)
            if isinstance(v, tuple):
                fields.append('Definition %s : Z * Z := (%d, %d).' % (nm, v[0], v[1]))
            else:
                fields.append('Definition %s : Z := %d.' % (nm, v))
        env = {}
        for k, v in fl.items():
            if isinstance(v, tuple):
                env['field_' + k + '__start'], env['field_' + k + '__end'] = v
            else:
                env['field_' + k] = v
        # remove field modules so their consts are not re-read as plain consts
        body = re.sub(r'mod\s+field\s*\{', 'mod field_removed {', src)
        for c in re.finditer(r'^\s*(?:pub(?:\([a-z]+\))?\s+)?const\s+([A-Z][A-Z0-9_]*)\s*:\s*([^=]+?)\s*=\s*([^;]+);', body, re.M):
            name, ty, ex = c.group(1), c.group(2), c.group(3)
            if ty.strip() in ('Field', 'Rest'):
                continue
            for suf, val in eval_const(ty, ex, env):
                nm = '%s_%s%s' % (prefix, name, suf)
                if nm in seen:
                    continue
                seen.add(nm)
                if suf == '':
                    env[name] = val
                consts.append('Definition %s : Z := %d.' % (nm, val))
    # build.rs defaults
    b = open(os.path.join(REPO, 'build.rs')).read()
    for m in re.finditer(r'\("([A-Z0-9_]+)",\s*(\d+)\)', b):
        nm = 'cfg_' + m.group(1)
        seen.add(nm)
        consts.append('Definition %s : Z := %s.' % (nm, m.group(2)))
    missing = [r for r in REQUIRED if r not in seen]
    if missing:
        sys.stderr.write('translate.py: required constants not found in the source: %s\n' % ', '.join(missing))
        sys.exit(2)
    hdr = '(* GENERATED by tools/translate.py from the Rust sources; do not edit. *)\nFrom Coq Require Import ZArith.\nLocal Open Scope Z_scope.\n\n'
    os.makedirs(OUT, exist_ok=True)
    changed = []
    for fn, lines in (('Consts.v', consts), ('WireFields.v', fields)):
        text = hdr + '\n'.join(lines) + '\n'
        p = os.path.join(OUT, fn)
        old = open(p).read() if os.path.exists(p) else None
        if old != text:
            open(p, 'w').write(text)
            changed.append(fn)
    print('translate: %d constants, %d fields%s' % (len(consts), len(fields), (' (updated ' + ', '.join(changed) + ')') if changed else ''))


if __name__ == '__main__':
    main()
