#!/bin/sh
# Independent re-check (coqchk) of EVERY compiled Props module and everything it depends on, in one run
# (each library is checked once; about 40 min single-threaded, dominated by the wire-format proofs).
# Writes records/coqchk-all.json.  The per-check thorough tier runs coqchk itself for the properties where
# that takes a minute or two; for C03 C06 C07 C10 C20 (30+ min each, same libraries) it refers to this file.
set -u
V=$(dirname "$(dirname "$(readlink -f "$0")")")
cd "$V/coq" || exit 2
MODS=$(ls Props/*.v | sed 's|Props/\(.*\)\.v|SV.Props.\1|')
N=$(echo "$MODS" | wc -w)
T0=$(date +%s)
OUT=$(timeout 14400 coqchk -o -silent -Q . SV $MODS 2>&1); RC=$?
T1=$(date +%s)
echo "$OUT" | tail -20
python3 - "$RC" "$N" "$((T1-T0))" <<PY > "$V/records/coqchk-all.json"
import sys, re, json, subprocess
out = '''$(echo "$OUT" | tail -40 | sed "s/'/ /g")'''
def grab(pat):
    m = re.search(pat, out, re.S)
    return m.group(1).strip() if m else '?'
print(json.dumps({
  'tool': 'coqchk -o -silent -Q . SV <all Props modules>', 'rc': int(sys.argv[1]), 'modules': int(sys.argv[2]), 'seconds': int(sys.argv[3]),
  'verif_commit': subprocess.run(['git','-C','$V','rev-parse','--short','HEAD'],capture_output=True,text=True).stdout.strip(),
  'axioms': grab(r'\* Axioms:\s*(.*?)\n\s*\n'), 'type_in_type': grab(r'type-in-type:\s*(.*?)\n\s*\n'),
  'unsafe_fixpoints': grab(r'unsafe \(co\)fixpoints:\s*(.*?)\n\s*\n'), 'positivity_assumed': grab(r'positivity is assumed:\s*(\S[^\n]*)'),
}, indent=1))
PY
cat "$V/records/coqchk-all.json"
exit $RC
